import Dcg.Proofs.Enum
import Dcg.Proofs.EnumSites
import Dcg.Props.C09Order
import Dcg.Props.C07
import Dcg.Props.C10
import Dcg.Proofs.TypesLiteral
/-
C09 — enumerations keep exactly the schema's set of values.
Only property theorems live here; helper lemmas are in Dcg/Proofs/Enum.lean.

`o : EnumObj` is the schema object (`type` when it is a single string, the `enum` list of scalar
JSON values, `x-enum-varnames`), `cfg` the resolver options, `E` the case maps (see C07).
`parseEnum` returns the members `(name, default)` of the Enum class and whether the null split
(Optional root type) happened. `evalDefault` is what Python reads back from a member's right-hand side.
-/
namespace Dcg.Props.C09
open Dcg.Py.Ident Dcg.Model.Names Dcg.Model.Enum Dcg.Model.Escape Dcg.Gen.EscTables
open Dcg.Proofs.Names Dcg.Proofs.Enum Dcg.Proofs.EnumSites

/-! ### values -/

/-- a member default is read back as exactly the entry it was made from: strings through the
lexer round trip of C10 (`'` + translate(enumTable) + `'`, followed by the newline the template
writes), other scalars are rendered by `str()` (their read-back is not modelled) -/
theorem member_read_back (v : JVal) : evalDefault (memberDefault v) = some v := by
  cases v with
  | str s =>
    simp only [memberDefault, evalDefault]
    rw [Dcg.Props.C10.enum_literal_exact s ['\n'] (by decide)]
    rfl
  | _ => rfl

/-- ALL enum lists, all options: the values Python reads back from the members are the entries that
`parse_enum` kept (`enumTimes`), in order, each with its JSON type and exact content. -/
theorem enum_members_read_back (E : Env) (cfg : Cfg) (o : EnumObj) (ms : List Member) (nullable : Bool)
    (h : parseEnum E cfg o = .ok (ms, nullable)) :
    ms.map (fun m => evalDefault m.2) = (enumTimes o).1.map some ∧ nullable = (enumTimes o).2 := by
  unfold parseEnum at h
  cases hf : foldMembers E cfg o (enumTimes o).1 0 jsonInit with
  | ok ms' =>
    rw [hf] at h
    simp only [Res.map, Res.ok.injEq, Prod.mk.injEq] at h
    obtain ⟨h1, h2⟩ := h
    subst h1
    refine ⟨?_, h2.symm⟩
    have := members_defaults _ _ _ _ hf
    have e : ms'.map (fun m => evalDefault m.2) = (ms'.map (·.2)).map evalDefault := by simp
    rw [e, this]
    simp [member_read_back]
  | outOfFuel => rw [hf] at h; simp [Res.map] at h
  | error => rw [hf] at h; simp [Res.map] at h

/-- FULL STATEMENT (false, see `enum_null_member_witness`): the member values are exactly the non-null
entries and a null entry makes the member optional instead. -/
def EnumValuesExact (E : Env) (cfg : Cfg) (o : EnumObj) : Prop :=
  ∀ ms nullable, parseEnum E cfg o = .ok (ms, nullable) →
    ms.map (fun m => evalDefault m.2) = (o.values.filter (· != .null)).map some ∧
    (nullable = true ↔ JVal.null ∈ o.values)

/-- PARTIAL: it holds when the schema says `type: string`, or lists no null. -/
theorem enum_values_exact_partial (E : Env) (cfg : Cfg) (o : EnumObj)
    (hyp : o.ty = some strT ∨ JVal.null ∉ o.values) : EnumValuesExact E cfg o := by
  intro ms nullable h
  obtain ⟨h1, h2⟩ := enum_members_read_back E cfg o ms nullable h
  rw [h1, h2]
  unfold enumTimes
  by_cases hn : JVal.null ∈ o.values
  · have hty : o.ty = some strT := by
      rcases hyp with h | h
      · exact h
      · exact absurd hn h
    simp [hn, hty]
  · have hfilter : o.values.filter (· != .null) = o.values := by
      rw [List.filter_eq_self]
      intro v hv
      simp only [bne_iff_ne, ne_eq]
      intro h; subst h; exact hn hv
    simp [hn, hfilter]

/-- non-vacuity of the hypothesis, on a list with null and nasty strings -/
example : (⟨some strT, [.str ['a', '\'', '\\'], .null, .str ['m', 'r', 'o']], []⟩ : EnumObj).ty = some strT ∨
    JVal.null ∉ (⟨some strT, [.str ['a', '\'', '\\'], .null, .str ['m', 'r', 'o']], []⟩ : EnumObj).values :=
  Or.inl rfl

/-- REFUTATION of the full statement (known finding D12): without `type: string` a null entry becomes
the member `NoneType_None = None` and the member is not made optional. -/
theorem enum_null_member_witness :
    parseEnum pyEnv {} ⟨none, [.int 1, .null], []⟩ =
      .ok ([(['i', 'n', 't', '_', '1'], .raw (.int 1)),
            (['N', 'o', 'n', 'e', 'T', 'y', 'p', 'e', '_', 'N', 'o', 'n', 'e'], .raw .null)], false) := by
  decide +kernel

theorem enum_values_not_exact : ¬ EnumValuesExact pyEnv {} ⟨none, [.int 1, .null], []⟩ := by
  intro h
  have := (h _ _ enum_null_member_witness).1
  revert this
  decide

/-- Python turns a member whose value equals (`==`) an earlier member's value into an alias of it.
PARTIAL: when the read-back values are pairwise different under Python equality, `list(EnumClass)`
yields all of them. -/
theorem enum_no_alias_partial : ∀ (vs : List JVal), vs.Pairwise (fun a b => pyEq a b = false) →
    effectiveValues vs = vs := by
  intro vs
  induction vs with
  | nil => intro _; rfl
  | cons v vs ih =>
    intro h
    rw [List.pairwise_cons] at h
    simp only [effectiveValues, ih h.2, List.cons.injEq, true_and]
    rw [List.filter_eq_self]
    intro w hw
    simp [h.1 w hw]

/-- REFUTATION of the unconditional statement (known finding D12): `1`, `true`, `1.0` are three JSON
values but one Python value — two of the three members are aliases. -/
theorem enum_alias_witness :
    effectiveValues [.int 1, .bool true, .float ['1', '.', '0'] (some 1), .str ['x']] = [.int 1, .str ['x']] := by
  decide

/-! ### names -/

/-- THE CALL SITES of the enum resolver, as read off the source (`Dcg.Gen.EnumSites`): exactly the two reviewed
callers (`JsonSchemaParser.parse_enum` — JSON Schema and, by inheritance, OpenAPI — and `GraphQLParser.parse_enum`;
a third caller has to be reviewed and modelled first), the resolver's `get_valid_name` and every caller have the
recognised shape (the set assigned before the loop is what is passed as `excludes=`, every returned name is added
to it), and at EVERY site `mro` is reserved: by the resolver itself or by the set the site starts from. -/
theorem enum_call_sites_reviewed :
    Dcg.Gen.EnumSites.sites.map (·.name) = ["GraphQLParser.parse_enum", "JsonSchemaParser.parse_enum"] ∧
    Dcg.Gen.EnumSites.resolverRecognised = true ∧
    ∀ s ∈ Dcg.Gen.EnumSites.sites, s.recognised = true ∧ s.passesSet = true ∧ s.addsResult = true ∧
      mro ∈ Dcg.Gen.EnumSites.resolverExcludes ++ s.init := by
  decide

/-- FULL STRENGTH, every call site: whatever list of entries the loop of a site runs over (any schema object, any
options with a legal prefix), started from THAT site's excludes, every member name is an identifier, no keyword,
not `mro`, does not start with `_`, and the member names of one class are pairwise distinct. -/
theorem enum_names_legal_distinct_every_site (s : Dcg.Gen.EnumSites.Site) (hs : s ∈ Dcg.Gen.EnumSites.sites)
    (E : Env) (cfg : Cfg) (o : EnumObj) (vs : List JVal) (i : Nat) (ms : List Member)
    (hp : PrefixOK cfg) (hE : CaseOK E) (h : foldMembers E cfg o vs i s.init = .ok ms) :
    (∀ m ∈ ms, isIdentifier m.1 = true ∧ isKeyword m.1 = false ∧ m.1 ≠ mro ∧ m.1.head? ≠ some '_') ∧
    (ms.map (·.1)).Pairwise (· ≠ ·) := by
  have := fold_names_legal_distinct hp hE s.init (enum_call_sites_reviewed.2.2 s hs).2.2.2 vs i ms h
  exact ⟨this.1, this.2.1⟩

/-- FULL STRENGTH, the JSON Schema / OpenAPI site (C07 with the enum resolver): every member name is an
identifier, no keyword, not `mro`, does not start with `_`, and the member names of one class are pairwise distinct. -/
theorem enum_names_legal_distinct (E : Env) (cfg : Cfg) (o : EnumObj) (ms : List Member) (nullable : Bool)
    (hp : PrefixOK cfg) (hE : CaseOK E) (h : parseEnum E cfg o = .ok (ms, nullable)) :
    (∀ m ∈ ms, isIdentifier m.1 = true ∧ isKeyword m.1 = false ∧ m.1 ≠ mro ∧ m.1.head? ≠ some '_') ∧
    (ms.map (·.1)).Pairwise (· ≠ ·) := by
  unfold parseEnum at h
  cases hf : foldMembers E cfg o (enumTimes o).1 0 jsonInit with
  | ok ms' =>
    rw [hf] at h
    simp only [Res.map, Res.ok.injEq, Prod.mk.injEq] at h
    obtain ⟨h1, _⟩ := h
    subst h1
    have := fold_names_legal_distinct hp hE jsonInit (by decide) _ _ _ hf
    exact ⟨this.1, this.2.1⟩
  | outOfFuel => rw [hf] at h; simp [Res.map] at h
  | error => rw [hf] at h; simp [Res.map] at h

/-- FULL STRENGTH, the GraphQL site: the members of the Enum class of a GraphQL enum type have legal, distinct
names (not `mro`, no keyword, no leading `_`) and, read back by Python, exactly the value names of the type, in
the order in which the loop met them. -/
theorem graphql_enum_names_and_values (E : Env) (cfg : Cfg) (names : List (List Char)) (ms : List Member)
    (hp : PrefixOK cfg) (hE : CaseOK E) (h : parseGraphqlEnum E cfg names = .ok ms) :
    (∀ m ∈ ms, isIdentifier m.1 = true ∧ isKeyword m.1 = false ∧ m.1 ≠ mro ∧ m.1.head? ≠ some '_') ∧
    (ms.map (·.1)).Pairwise (· ≠ ·) ∧
    ms.map (fun m => evalDefault m.2) = names.map (fun n => some (.str n)) := by
  unfold parseGraphqlEnum at h
  have := fold_names_legal_distinct hp hE graphqlInit (by decide) _ _ _ h
  refine ⟨this.1, this.2.1, ?_⟩
  have hd := graphql_fold_defaults names names 0 graphqlInit ms h
  have e : ms.map (fun m => evalDefault m.2) = (ms.map (·.2)).map evalDefault := by simp
  rw [e, hd]
  simp [member_read_back]

/-- non-vacuity: GraphQL values that only SANITISE to `mro` (`MRO`, `Mro` under
snake case; `_mro` with the special prefix removed) next to the literal one -/
example :
    parseGraphqlEnum pyEnv { snakeCase := true } [['M', 'R', 'O'], ['M', 'r', 'o'], ['m', 'r', 'o']] =
      .ok [(['m', 'r', 'o', '_', '1'], .lit ['\'', 'M', 'R', 'O', '\'']), (['m', 'r', 'o', '_', '2'], .lit ['\'', 'M', 'r', 'o', '\'']),
           (['m', 'r', 'o', '_'], .lit ['\'', 'm', 'r', 'o', '\''])] ∧
    parseGraphqlEnum pyEnv { removePrefix := true } [['_', 'm', 'r', 'o']] =
      .ok [(['m', 'r', 'o', '_', '1'], .lit ['\'', '_', 'm', 'r', 'o', '\''])] := by
  decide +kernel

/-- the GraphQL member loop terminates and never raises -/
theorem graphql_enum_total (E : Env) (cfg : Cfg) (names : List (List Char)) (hp : PrefixStart cfg) (hE : CaseOK E) :
    parseGraphqlEnum E cfg names ≠ .outOfFuel :=
  fold_terminates hp hE _ _ _

/-- non-vacuity: reserved and colliding names in one enum (`mro`, a keyword, two entries that sanitise alike) -/
example : parseEnum pyEnv {} ⟨some strT, [.str ['m', 'r', 'o'], .str ['i', 'f'], .str ['a', ' '], .str ['a', '-']], []⟩ =
    .ok ([(['m', 'r', 'o', '_'], .lit ['\'', 'm', 'r', 'o', '\'']), (['i', 'f', '_'], .lit ['\'', 'i', 'f', '\'']),
          (['a', '_'], .lit ['\'', 'a', ' ', '\'']), (['a', '_', '_', '1'], .lit ['\'', 'a', '-', '\''])], false) := by
  decide +kernel

/-- the member loop terminates: for every prefix the resolver's constructor admits (`PrefixStart`, C07)
`parse_enum` never runs out of fuel -/
theorem enum_members_terminate (E : Env) (cfg : Cfg) (o : EnumObj) (hp : PrefixStart cfg) (hE : CaseOK E) :
    parseEnum E cfg o ≠ .outOfFuel := by
  unfold parseEnum
  intro hc
  cases hf : foldMembers E cfg o (enumTimes o).1 0 jsonInit with
  | ok _ => rw [hf] at hc; simp [Res.map] at hc
  | outOfFuel => exact fold_terminates hp hE _ _ _ hf
  | error => rw [hf] at hc; simp [Res.map] at hc

/-! ### literal mode -/

/-- FULL STRENGTH: in literal mode the `Literal[...]` arguments are exactly the non-null entries, in
order, each unchanged (their rendering is `repr`, C01/C10). -/
theorem literal_values_exact (o : EnumObj) :
    parseEnumAsLiteral o = o.values.filter (· != .null) ∧
    JVal.null ∉ parseEnumAsLiteral o ∧
    ∀ v, v ∈ parseEnumAsLiteral o ↔ (v ∈ o.values ∧ v ≠ .null) := by
  refine ⟨rfl, ?_, ?_⟩
  · simp [parseEnumAsLiteral]
  · intro v; simp [parseEnumAsLiteral]

/-- literal mode is chosen exactly for `--enum-field-as-literal all`, or `one` with a single entry -/
theorem literal_mode_iff (m : LiteralMode) (o : EnumObj) :
    shouldParseAsLiteral m o = true ↔ (m = .all ∨ (m = .one ∧ o.values.length = 1)) := by
  simp [shouldParseAsLiteral]

/-! ### default → member -/

/-- PARTIAL (`--set-default-enum-member`): for an enum of plain strings (no quote at either end, nothing the
escape table rewrites — the EMPTY string is one of them) and a default equal to one of them, `find_member`
returns a member whose value is that entry. `reprValue` is `repr(default)`; the hypothesis on it says that it is
not the literal text of a *different* entry (true of Python's `repr`). -/
theorem default_member_found_partial (strs : List (List Char)) (s reprValue : List Char) :
    ∀ (ms : List Member),
      ms.map (·.2) = strs.map (fun t => memberDefault (.str t)) →
      (∀ t ∈ strs, plainStr t = true) → s ∈ strs →
      (∀ t ∈ strs, quoted '\'' enumTable t = reprValue → t = s) →
      ∃ n, defaultMember ms (.str s) reprValue = some n ∧ (n, memberDefault (.str s)) ∈ ms := by
  induction strs with
  | nil => intro ms _ _ hs _; cases hs
  | cons t ts ih =>
    intro ms hms hplain hs hrepr
    cases ms with
    | nil => simp at hms
    | cons m ms' =>
      simp only [List.map_cons, List.cons.injEq] at hms
      obtain ⟨hm, hms'⟩ := hms
      have hsplain := hplain s hs
      obtain ⟨hs1, hs2, _⟩ := plainStr_spec hsplain
      have hstrip_s : stripQ (JVal.str s).pyStr = s := stripQ_plain hs1 hs2
      have hstrip_t : stripQ m.2.pyStr = t := by
        rw [hm]; exact strip_member_plain (hplain t List.mem_cons_self)
      have hsome : m.2.isNone = false := by rw [hm]; rfl
      by_cases hts : t = s
      · subst hts
        refine ⟨m.1, ?_, ?_⟩
        · have hyes : memberMatches (.str t) reprValue m = true := by
            simp [memberMatches, hsome, hstrip_s, hstrip_t]
          simp [defaultMember, JVal.isNull, findMember, List.find?_cons_of_pos hyes]
        · rw [← hm]; exact List.mem_cons_self
      · have hs' : s ∈ ts := by
          simp only [List.mem_cons] at hs
          rcases hs with hs | hs
          · exact absurd hs.symm hts
          · exact hs
        obtain ⟨n, hn, hmem⟩ := ih ms' hms' (fun u hu => hplain u (List.mem_cons_of_mem _ hu)) hs'
          (fun u hu => hrepr u (List.mem_cons_of_mem _ hu))
        refine ⟨n, ?_, List.mem_cons_of_mem _ hmem⟩
        have hno : ¬ memberMatches (.str s) reprValue m = true := by
          unfold memberMatches
          rw [hstrip_s, hstrip_t, hm]
          simp only [memberDefault, Bool.and_eq_true, Bool.or_eq_true, beq_iff_eq, not_and, not_or]
          intro _
          exact ⟨hts, fun h => hts (hrepr t List.mem_cons_self h)⟩
        simp only [defaultMember, JVal.isNull, Bool.false_eq_true, if_false, findMember] at hn ⊢
        rw [List.find?_cons_of_neg hno]
        exact hn

/-- non-vacuity, on the region the repaired finding D25 excluded: the empty string is a plain string and the
default `""` of `enum: ["a", ""]` is replaced by the member of `""` -/
example : plainStr [] = true ∧
    ∃ ms, parseEnum pyEnv {} ⟨some strT, [.str ['a'], .str []], []⟩ = .ok (ms, false) ∧
      defaultMember ms (.str []) ['\'', '\''] = some ['f', 'i', 'e', 'l', 'd', '_'] ∧
      (['f', 'i', 'e', 'l', 'd', '_'], memberDefault (.str [])) ∈ ms := by
  refine ⟨by decide, [(['a'], memberDefault (.str ['a'])), (['f', 'i', 'e', 'l', 'd', '_'], memberDefault (.str []))],
    by decide +kernel, by decide +kernel, by decide +kernel⟩

/-- two entries with the same literal text are the same entry (the lexer reads the entry back) -/
theorem member_literal_injective (t s : List Char)
    (h : quoted '\'' enumTable t = quoted '\'' enumTable s) : t = s := by
  have h1 := member_read_back (.str t)
  have h2 := member_read_back (.str s)
  simp only [memberDefault] at h1 h2
  rw [h, h2] at h1
  simpa using h1.symm

/-- PARTIAL, escaped strings (`--set-default-enum-member`; the region outside known finding D24): a default
equal to an entry whose hand-escaped literal IS `repr(default)` (backslash, `\n`, `\r`, `\t`, NUL … without
quotes; also the empty string, `repr("")` is `''`) is found through the second comparison of `find_member`,
provided no OTHER entry has the same text after stripping quotes. The member returned has that entry's value. -/
theorem default_member_found_by_repr_partial (strs : List (List Char)) (s reprValue : List Char) :
    ∀ (ms : List Member),
      ms.map (·.2) = strs.map (fun t => memberDefault (.str t)) →
      s ∈ strs →
      quoted '\'' enumTable s = reprValue →
      (∀ t ∈ strs, t ≠ s → stripQ (quoted '\'' enumTable t) ≠ stripQ s) →
      ∃ n, defaultMember ms (.str s) reprValue = some n ∧ (n, memberDefault (.str s)) ∈ ms := by
  induction strs with
  | nil => intro ms _ hs _ _; cases hs
  | cons t ts ih =>
    intro ms hms hs hrepr htwin
    cases ms with
    | nil => simp at hms
    | cons m ms' =>
      simp only [List.map_cons, List.cons.injEq] at hms
      obtain ⟨hm, hms'⟩ := hms
      by_cases hts : t = s
      · subst hts
        refine ⟨m.1, ?_, ?_⟩
        · have hyes : memberMatches (.str t) reprValue m = true := by
            simp [memberMatches, hm, memberDefault, Default.isNone, hrepr]
          simp [defaultMember, JVal.isNull, findMember, List.find?_cons_of_pos hyes]
        · rw [← hm]; exact List.mem_cons_self
      · have hs' : s ∈ ts := by
          simp only [List.mem_cons] at hs
          rcases hs with hs | hs
          · exact absurd hs.symm hts
          · exact hs
        obtain ⟨n, hn, hmem⟩ := ih ms' hms' hs' hrepr
          (fun u hu => htwin u (List.mem_cons_of_mem _ hu))
        refine ⟨n, ?_, List.mem_cons_of_mem _ hmem⟩
        have hno : ¬ memberMatches (.str s) reprValue m = true := by
          unfold memberMatches
          rw [hm]
          simp only [memberDefault, Default.pyStr, JVal.pyStr, Bool.and_eq_true, Bool.or_eq_true, beq_iff_eq,
            not_and, not_or]
          intro _
          refine ⟨htwin t List.mem_cons_self hts, fun h => hts ?_⟩
          exact member_literal_injective t s (h.trans hrepr.symm)
        simp only [defaultMember, JVal.isNull, Bool.false_eq_true, if_false, findMember] at hn ⊢
        rw [List.find?_cons_of_neg hno]
        exact hn

/-- non-vacuity: `a\b` (backslash) next to `x`: the literal `'a\\b'` is `repr("a\\b")`, no twin -/
example :
    quoted '\'' enumTable ['a', '\\', 'b'] = ['\'', 'a', '\\', '\\', 'b', '\''] ∧
    ∀ t ∈ [['x'], ['a', '\\', 'b']], t ≠ ['a', '\\', 'b'] →
      stripQ (quoted '\'' enumTable t) ≠ stripQ ['a', '\\', 'b'] := by
  decide +kernel

/-- non-vacuity: the hypotheses hold for an ordinary enum -/
example : ∀ t ∈ [['a'], ['b', ' ', 'c'], ['m', 'r', 'o']], plainStr t = true := by decide

/-- REFUTATION of the unconditional statement (known finding D24): quotes are stripped before the
comparison, so for `enum: ['"a"', 'a']` the default `'a'` is mapped to the member of `'"a"'`. -/
theorem default_member_wrong_witness :
    ∃ ms, parseEnum pyEnv {} ⟨some strT, [.str ['"', 'a', '"'], .str ['a']], []⟩ = .ok (ms, false) ∧
      defaultMember ms (.str ['a']) ['\'', 'a', '\''] = some ['f', 'i', 'e', 'l', 'd', '_', 'a', '_'] ∧
      (['f', 'i', 'e', 'l', 'd', '_', 'a', '_'], memberDefault (.str ['"', 'a', '"'])) ∈ ms := by
  refine ⟨[(['f', 'i', 'e', 'l', 'd', '_', 'a', '_'], memberDefault (.str ['"', 'a', '"'])),
           (['a'], memberDefault (.str ['a']))], by decide +kernel, by decide +kernel, by decide +kernel⟩

/-- …an entry containing a quote is not found at all (`repr("a'b")` is `"a'b"`), … -/
theorem default_member_missed_witness :
    ∃ ms, parseEnum pyEnv {} ⟨some strT, [.str ['a', '\'', 'b']], []⟩ = .ok (ms, false) ∧
      defaultMember ms (.str ['a', '\'', 'b']) ['"', 'a', '\'', 'b', '"'] = none := by
  refine ⟨[(['a', '_', 'b'], memberDefault (.str ['a', '\'', 'b']))], by decide +kernel, by decide +kernel⟩

/-- PARTIAL, non-string scalars (`--set-default-enum-member`), INCLUDING the falsy ones `0`, `false`, `0.0` (the
region of the repaired finding D25): a default that is a non-null, non-string entry `v` of ANY enum of scalar
entries is replaced by a member whose value is `v`, provided no OTHER entry has the same text after stripping
quotes (`enum: ["0", 0]` is inside known finding D24). `reprValue` is `repr(default)`; the hypothesis on it says
that it does not start with a quote (true of Python's `repr` of a number / bool). -/
theorem default_member_found_scalar_partial (vs : List JVal) (v : JVal) (reprValue : List Char)
    (hns : v.isStr = false) (hnn : v ≠ .null) (hr : reprValue.head? ≠ some '\'') :
    ∀ (ms : List Member),
      ms.map (·.2) = vs.map memberDefault → v ∈ vs →
      (∀ w ∈ vs, w ≠ v → stripQ (memberDefault w).pyStr ≠ stripQ v.pyStr) →
      ∃ n, defaultMember ms v reprValue = some n ∧ (n, memberDefault v) ∈ ms := by
  have hraw : memberDefault v = .raw v := by
    cases v <;> first | rfl | simp [JVal.isStr] at hns
  have hnull : v.isNull = false := by
    cases v <;> first | rfl | exact absurd rfl hnn
  have hsome : (Default.raw v).isNone = false := by
    cases v <;> first | rfl | exact absurd rfl hnn
  induction vs with
  | nil => intro ms _ hv _; cases hv
  | cons w ws ih =>
    intro ms hms hv htwin
    cases ms with
    | nil => simp at hms
    | cons m ms' =>
      simp only [List.map_cons, List.cons.injEq] at hms
      obtain ⟨hm, hms'⟩ := hms
      by_cases hwv : w = v
      · subst hwv
        refine ⟨m.1, ?_, ?_⟩
        · have hyes : memberMatches w reprValue m = true := by
            simp [memberMatches, hm, hraw, hsome, Default.pyStr]
          simp [defaultMember, hnull, findMember, List.find?_cons_of_pos hyes]
        · rw [← hm]; exact List.mem_cons_self
      · have hv' : v ∈ ws := by
          simp only [List.mem_cons] at hv
          rcases hv with hv | hv
          · exact absurd hv.symm hwv
          · exact hv
        obtain ⟨n, hn, hmem⟩ := ih ms' hms' hv' (fun u hu => htwin u (List.mem_cons_of_mem _ hu))
        refine ⟨n, ?_, List.mem_cons_of_mem _ hmem⟩
        have hno : ¬ memberMatches v reprValue m = true := by
          have h1 := htwin w List.mem_cons_self hwv
          unfold memberMatches
          rw [hm]
          simp only [Bool.and_eq_true, Bool.or_eq_true, beq_iff_eq, not_and, not_or]
          intro _
          refine ⟨h1, ?_⟩
          cases w with
          | str t =>
            simp only [memberDefault, beq_iff_eq]
            intro h
            apply hr
            rw [← h]
            simp [quoted]
          | _ => simp [memberDefault]
        simp only [defaultMember, hnull, Bool.false_eq_true, if_false, findMember] at hn ⊢
        rw [List.find?_cons_of_neg hno]
        exact hn

/-- non-vacuity, on the witness of the repaired finding D25: `enum: [0, 1]` with default `0`, `enum: [true, false]`
with default `false` — no other entry has the same text, the default becomes the member of that value -/
example :
    (∀ w ∈ [JVal.int 0, .int 1], w ≠ .int 0 → stripQ (memberDefault w).pyStr ≠ stripQ (JVal.int 0).pyStr) ∧
    (∀ w ∈ [JVal.bool true, .bool false], w ≠ .bool false →
      stripQ (memberDefault w).pyStr ≠ stripQ (JVal.bool false).pyStr) ∧
    ∃ ms, parseEnum pyEnv {} ⟨some ['i', 'n', 't', 'e', 'g', 'e', 'r'], [.int 0, .int 1], []⟩ = .ok (ms, false) ∧
      defaultMember ms (.int 0) ['0'] = some ['i', 'n', 't', 'e', 'g', 'e', 'r', '_', '0'] ∧
      (['i', 'n', 't', 'e', 'g', 'e', 'r', '_', '0'], memberDefault (.int 0)) ∈ ms := by
  refine ⟨by decide, by decide,
    [(['i', 'n', 't', 'e', 'g', 'e', 'r', '_', '0'], .raw (.int 0)), (['i', 'n', 't', 'e', 'g', 'e', 'r', '_', '1'], .raw (.int 1))],
    by decide +kernel, by decide +kernel, by decide +kernel⟩

/-- RESIDUAL REGION of the default → member step after the repair of D25 (it lies inside known finding D12 and is
not a violation of its own: the property speaks of defaults that are NON-null entries): the member
`NoneType_None = None` that an enum without `type: string` gets for a null entry is never the result of a lookup.
A `null` default is a missing default (`if model_field.default is None: continue`), `find_member` skips members
without value (`if field.default is None: continue`), so whatever is looked up — also `null` as an element of a
list default — the member returned has a value. Witness: the enum of `enum_null_member_witness`. -/
theorem default_member_null_witness :
    (∀ (ms : List Member) (r : List Char), defaultMember ms .null r = none) ∧
    (∀ (ms : List Member) (v : JVal) (r n : List Char), findMember ms v r = some n →
      ∃ d, (n, d) ∈ ms ∧ d ≠ .raw .null) ∧
    ∃ ms, parseEnum pyEnv {} ⟨none, [.int 1, .null], []⟩ = .ok (ms, false) ∧
      (['N', 'o', 'n', 'e', 'T', 'y', 'p', 'e', '_', 'N', 'o', 'n', 'e'], Default.raw .null) ∈ ms ∧
      findMember ms .null ['N', 'o', 'n', 'e'] = none := by
  refine ⟨fun _ _ => rfl, ?_, ?_⟩
  · intro ms v r n h
    unfold findMember at h
    cases hf : ms.find? (memberMatches v r) with
    | none => rw [hf] at h; cases h
    | some m =>
      rw [hf] at h
      simp only [Option.map_some, Option.some.injEq] at h
      subst h
      refine ⟨m.2, List.mem_of_find?_eq_some hf, ?_⟩
      have hp := List.find?_some hf
      intro hd
      simp [memberMatches, hd, Default.isNone] at hp
  · exact ⟨_, enum_null_member_witness, by decide, by decide +kernel⟩

/-- an empty list default (`default: []`) names no entry: it stays as it is (`if not enum_member: continue`) -/
example (h : Heap) (en : List Char) (ms : List Member) (a : Option (List Char)) :
    applyStep h ⟨en, ms, a, .list []⟩ = (h, .unchanged) := rfl


/-! ### the text of a default member across modules (`Parser.__set_default_enum_member`, whole run) -/

/-- FULL STRENGTH: run `__set_default_enum_member` over ANY sequence of fields (all modules, any
processing order, starting from any heap of `Member` objects) and render every default at the end, as
`Parser.parse` does. The text of each default is `stepText` of ITS OWN field: a function of the alias
`__change_from_import` gave the field's own data type (i.e. of the module the field lives in), of the
enum and of the default — never of which other fields, in which other modules, were processed before or
after it. (`Member` objects are allocated per lookup: an alias written for one field cannot reach another.) -/
theorem default_text_depends_on_own_field_only (steps : List Step) :
    ∀ (h rest : Heap),
      ∃ tail, (runSteps h steps).1 = h ++ tail ∧
        (runSteps h steps).2.map (renderOut ((runSteps h steps).1 ++ rest)) = steps.map stepText := by
  induction steps with
  | nil => intro h rest; exact ⟨[], by simp [runSteps], by simp [runSteps]⟩
  | cons s ss ih =>
    intro h rest
    obtain ⟨tail, ht, hr⟩ := ih (h ++ stepCells s) rest
    refine ⟨stepCells s ++ tail, ?_, ?_⟩
    · simp only [runSteps, applyStep_closed, ht, List.append_assoc]
    · simp only [runSteps, applyStep_closed, List.map_cons, List.cons.injEq]
      refine ⟨?_, hr⟩
      rw [ht]
      have := render_closed h (tail ++ rest) s
      simpa [List.append_assoc] using this

/-- the statement as it is used: from the empty heap, rendering in the final heap -/
theorem default_text_whole_run (steps : List Step) :
    (runSteps [] steps).2.map (renderOut (runSteps [] steps).1) = steps.map stepText := by
  obtain ⟨_, _, hr⟩ := default_text_depends_on_own_field_only steps [] []
  simpa using hr

/-- two runs that process the same field among DIFFERENT other fields (other modules before it, after it,
in another order) print the same text for it -/
theorem default_text_history_independent (pre₁ post₁ pre₂ post₂ : List Step) (s : Step) :
    ((runSteps [] (pre₁ ++ s :: post₁)).2.map (renderOut (runSteps [] (pre₁ ++ s :: post₁)).1))[pre₁.length]? =
    ((runSteps [] (pre₂ ++ s :: post₂)).2.map (renderOut (runSteps [] (pre₂ ++ s :: post₂)).1))[pre₂.length]? := by
  rw [default_text_whole_run, default_text_whole_run]
  simp

/-- non-vacuity / the shape the seeded leak has: the same value is the default of a field of the defining
module (no alias) and of a field of an importing module (alias `s.C`), in both processing orders: the
defining module prints `C.r`, the importing one `s.C.r` -/
example :
    let ms : List Member := [(['r'], .lit ['\'', 'r', '\'']), (['g'], .lit ['\'', 'g', '\''])]
    let own : Step := ⟨['C'], ms, none, .scalar (.str ['r']) ['\'', 'r', '\'']⟩
    let imp : Step := ⟨['C'], ms, some ['s', '.', 'C'], .list [(.str ['r'], ['\'', 'r', '\'']), (.str ['g'], ['\'', 'g', '\''])]⟩
    (runSteps [] [own, imp]).2.map (renderOut (runSteps [] [own, imp]).1) =
      [.one ['C', '.', 'r'], .many [['s', '.', 'C', '.', 'r'], ['s', '.', 'C', '.', 'g']]] ∧
    (runSteps [] [imp, own]).2.map (renderOut (runSteps [] [imp, own]).1) =
      [.many [['s', '.', 'C', '.', 'r'], ['s', '.', 'C', '.', 'g']], .one ['C', '.', 'r']] := by
  decide +kernel

/-- FULL STATEMENT for the module that defines the enum (false, see `defining_module_dotted_witness`): a field
of the defining module (`data_type.alias` is None there) refers to the member through the class name that
module binds -/
def DefiningModuleText (s : Step) : Prop :=
  s.dtAlias = none → ∀ n ∈ foundNames s, memberText s n = shortName s.enumName ++ '.' :: n

/-- PARTIAL: it holds when the definition name of the enum carries no module (no dot) -/
theorem defining_module_text_partial (s : Step) (hyp : '.' ∉ s.enumName) : DefiningModuleText s := by
  intro ha n _
  have hs : shortName s.enumName = s.enumName := by
    unfold shortName
    have : s.enumName.reverse.takeWhile (· != '.') = s.enumName.reverse := by
      apply takeWhile_eq_self
      intro c hc
      simp only [bne_iff_ne, ne_eq]
      intro h; subst h; exact hyp (List.mem_reverse.mp hc)
    rw [this, List.reverse_reverse]
  simp [memberText, ha, aliasOr, hs]

/-- REFUTATION (known finding C09-F1): for a definition named `s.C` the defining module `s` binds `C`, but
the default is printed as `s.C.r` -/
theorem defining_module_dotted_witness :
    ¬ DefiningModuleText ⟨['s', '.', 'C'], [(['r'], .lit ['\'', 'r', '\''])], none, .scalar (.str ['r']) ['\'', 'r', '\'']⟩ := by
  intro h
  have := h rfl ['r'] (by decide)
  revert this
  decide

/-! ### order of the post-passes of Parser.parse -/

section PassOrder
open Dcg.Model.ParsePasses Dcg.Proofs.ParsePasses Dcg.Props.C09Order

/-- the translator found the per-module loop `for module_, models in module_models:` of `Parser.parse` (exactly once) -/
theorem parse_passes_recognised : Dcg.Gen.ParsePasses.recognised = true := by decide

/-- THE ORDER OBLIGATION, re-checked by the kernel on the call list extracted from parser/base.py on every run: every call of
the loop is a reviewed pass, unguarded, and the reviewed constraints hold (`Dcg.Model.ParsePasses.constraints`: in
particular `__set_default_enum_member` runs after `__change_from_import`, `__extract_inherited_enum`,
`__set_reference_default_value_to_field`, `__reuse_model` and `__collapse_root_models`). Any other order breaks this theorem. -/
theorem parse_pass_order_ok : orderOk Dcg.Gen.ParsePasses.calls = true := by decide

/-- WHY the order matters (abstract semantics of the four passes, all states, all pass lists): take ANY state the parser can
hand to the loop (`wf`, `noCopies`: every data type refers to a model of the module and is registered with it, no default
converted yet) — any number of Enum classes with any duplicates, any root models, any fields — any option vector with
--set-default-enum-member, and ANY list of passes in which the conversion runs once, after
`__set_reference_default_value_to_field`, `__reuse_model` and `__collapse_root_models`, and the merge runs before the fold
(`coreOk`, a part of `orderOk`). Then in the final state every field whose data type is an Enum class (directly or through a
folded root) has no raw default left, and a member default is a member of THAT class, which is still a class of the module. -/
theorem ordered_passes_defaults_are_live_members (o : Opts) (s : St) (ps : List Pass)
    (ho : o.sdem = true) (hw : wf s = true) (hn : noCopies s = true) (hok : coreOk ps = true) :
    good (run o ps s) = true := by
  obtain ⟨hc, _, h1, h2, h3, h4⟩ := coreOk_iff ps hok
  obtain ⟨s', hrun, hw', _⟩ := run_factor o ho ps s hw (Or.inl ⟨hn, h4⟩) hc h1 h2 h3
  rw [hrun]
  exact good_sdem s' hw'

/-- the same with --collapse-root-models and every root a field refers to known to the module: NO field is left behind a
root model and EVERY default (the field's own or the one taken over from the root's definition) is a member of the field's
class, which is a class of the module -/
theorem ordered_passes_collapse_all_members (o : Opts) (s : St) (ps : List Pass)
    (ho : o.sdem = true) (hcol : o.collapse = true) (hw : wf s = true) (hn : noCopies s = true)
    (hk : rootsKnown s = true) (hok : coreOk ps = true) : allMember (run o ps s) = true := by
  obtain ⟨hc, hcc, h1, h2, h3, h4⟩ := coreOk_iff ps hok
  obtain ⟨s', hrun, hw', hnr⟩ := run_factor o ho ps s hw (Or.inl ⟨hn, h4⟩) hc h1 h2 h3
  rw [hrun]
  exact allMember_sdem s' hw' (hnr (Or.inr ⟨hcol, hk, hcc⟩))

/-- the two statements for the pass list of the code as it is now (from `parse_pass_order_ok`, so re-proved whenever the list changes) -/
theorem parse_defaults_are_live_members (o : Opts) (s : St) (ho : o.sdem = true) (hw : wf s = true) (hn : noCopies s = true) :
    good (run o realPasses s) = true ∧
    (o.collapse = true → rootsKnown s = true → allMember (run o realPasses s) = true) := by
  have hcore : coreOk realPasses = true := orderOk_core _ parse_pass_order_ok
  exact ⟨ordered_passes_defaults_are_live_members o s realPasses ho hw hn hcore,
         fun hcol hk => ordered_passes_collapse_all_members o s realPasses ho hcol hw hn hk hcore⟩

/-- non-vacuity: the hypotheses hold of states with duplicated enums and enums behind roots; the run of the real list merges
class 2 into class 1 and writes `member 1 …` for the field of the dropped copy, folds roots 5 and 6 and converts the default
the definition of root 5 carried -/
example :
    wf mixedState = true ∧ noCopies mixedState = true ∧ rootsKnown mixedState = true ∧ coreOk realPasses = true ∧
    (run allOn realPasses mixedState).fields =
      [⟨.enum 1, .member 1 0⟩, ⟨.enum 1, .member 1 1⟩, ⟨.copy 1, .member 1 3⟩, ⟨.copy 3, .member 3 4⟩, ⟨.enum 3, .none⟩] := by
  decide

/-- REFUTATION of the other order, --reuse-model: converting before `__reuse_model` leaves the field of the dropped copy with a
member of class 2, which is no class of the module any more (`second: Optional[First] = Second.p`, NameError at import) -/
theorem conversion_before_reuse_dangles :
    wf dupState = true ∧ noCopies dupState = true ∧
    (run allOn [.setDefaultEnumMember, .reuseModel] dupState).fields = [⟨.enum 1, .member 1 0⟩, ⟨.enum 1, .member 2 1⟩] ∧
    live (run allOn [.setDefaultEnumMember, .reuseModel] dupState).classes 2 = false ∧
    good (run allOn [.setDefaultEnumMember, .reuseModel] dupState) = false ∧
    good (run allOn [.reuseModel, .setDefaultEnumMember] dupState) = true := by
  decide

/-- REFUTATION of the other order, --collapse-root-models: converting before `__collapse_root_models` leaves the raw default on
a field that now refers to the Enum class itself (`maybe: Optional[MaybeEnum] = 'y'`) -/
theorem conversion_before_collapse_stays_raw :
    wf rootState = true ∧ noCopies rootState = true ∧
    (run allOn [.setReferenceDefaultValueToField, .setDefaultEnumMember, .collapseRootModels] rootState).fields =
      [⟨.copy 1, .raw 0⟩, ⟨.copy 1, .raw 3⟩] ∧
    good (run allOn [.setReferenceDefaultValueToField, .setDefaultEnumMember, .collapseRootModels] rootState) = false ∧
    allMember (run allOn [.setReferenceDefaultValueToField, .collapseRootModels, .setDefaultEnumMember] rootState) = true := by
  decide

/-- REFUTATION of a third order: folding the root before `__set_reference_default_value_to_field` loses the default that the
root's definition carries (the field ends with no default at all) -/
theorem collapse_before_reference_default_loses_it :
    (run allOn [.collapseRootModels, .setReferenceDefaultValueToField, .setDefaultEnumMember] rootState).fields =
      [⟨.copy 1, .member 1 0⟩, ⟨.copy 1, .none⟩] ∧
    (run allOn [.setReferenceDefaultValueToField, .collapseRootModels, .setDefaultEnumMember] rootState).fields =
      [⟨.copy 1, .member 1 0⟩, ⟨.copy 1, .member 1 3⟩] := by
  decide

/-- REFUTATION of a fourth order: merging duplicates AFTER the roots were folded does not reach the copied data type; the field
keeps referring to the dropped class 2 and its default becomes a member of it (`s: Optional[Tint] = Tint.q`, no class `Tint`) -/
theorem collapse_before_reuse_dangles :
    wf dupRootState = true ∧ noCopies dupRootState = true ∧
    (run allOn [.collapseRootModels, .reuseModel, .setDefaultEnumMember] dupRootState).fields =
      [⟨.enum 1, .member 1 0⟩, ⟨.copy 2, .member 2 1⟩] ∧
    good (run allOn [.collapseRootModels, .reuseModel, .setDefaultEnumMember] dupRootState) = false ∧
    good (run allOn [.reuseModel, .collapseRootModels, .setDefaultEnumMember] dupRootState) = true := by
  decide

/-- the predicate rejects those orders (and accepts nothing that lacks a pass or guards one): the list of the code with the
conversion moved in front of `__reuse_model`, and the list with the conversion under an `if` -/
example :
    let moved : List Call := (Dcg.Gen.ParsePasses.calls.filter (·.pass != .setDefaultEnumMember)).flatMap
      (fun c => if c.pass = .reuseModel then [⟨.setDefaultEnumMember, false⟩, c] else [c])
    orderOk moved = false ∧ firstViolated moved = some (.reuseModel, .setDefaultEnumMember) ∧
    orderOk (Dcg.Gen.ParsePasses.calls.map (fun c => if c.pass = .setDefaultEnumMember then ⟨c.pass, true⟩ else c)) = false ∧
    orderOk (Dcg.Gen.ParsePasses.calls.filter (·.pass != .collapseRootModels)) = false ∧
    orderOk (Dcg.Gen.ParsePasses.calls ++ [⟨.other "new_pass", false⟩]) = false := by
  decide

end PassOrder

/-! ### literal mode inside a union: the text surgery of `get_optional_type` keeps the Literal verbatim

In literal mode an enum that stands in an anyOf / oneOf with another type is the member
`Literal['a', 'b,c', …]` of a rendered `Union[…]`; for an optional / nullable member
`get_optional_type` → `_remove_none_from_union` re-parses that TEXT.  `Dcg.Model.Types.removeNoneU` is
the character-level transliteration of the depth-counting splitter (tied to the real function on
every run by the campaign `types.litunion`). -/
section LiteralUnion
open Dcg.Model.Types Dcg.Proofs.Types Dcg.Proofs.TypesCall Dcg.Proofs.TypesLiteral

/-- FULL-STRENGTH statement (false of the code, see `literal_union_bracket_witness`): whatever the
items, a Literal member of a union of closed members comes back verbatim. -/
def LiteralUnionKeptAlways : Prop :=
  ∀ (pre post items : List Str), (∀ f ∈ pre ++ post, closedLeaf f = true) →
    removeNoneU (unionOf (pre ++ [literalText items] ++ post)) =
      mkText (notNone pre ++ [literalText items] ++ notNone post)

/-- **the Literal member is kept verbatim** (partial: under the decidable `literalItemsOK`): for ALL
item texts whose brackets are closed relative to the inside of `Literal[` — any commas, any blanks
around them, the words `None`, `Optional[…]`, `Union[…]`, ` | `, quotes — and all other members
before and after it that are closed leaves (`None` among them), `_remove_none_from_union` returns
the three-way end over: the members before it that are not `None`, the Literal character for
character, the members after it that are not `None`. -/
theorem literal_union_kept_verbatim_partial (pre post items : List Str)
    (hother : ∀ f ∈ pre ++ post, closedLeaf f = true) (hok : literalItemsOK items = true) :
    removeNoneU (unionOf (pre ++ [literalText items] ++ post)) =
      mkText (notNone pre ++ [literalText items] ++ notNone post) := by
  rw [removeNoneU_leaves _ (by
    intro f hf
    simp only [List.mem_append, List.mem_singleton] at hf
    rcases hf with (h | h) | h
    · exact hother f (by simp [h])
    · subst h; exact closedLeaf_literal items hok
    · exact hother f (by simp [h]))]
  rw [notNone_append, notNone_append, notNone_literal]

/-- non-vacuity: values with a tight comma, a blank before the comma, two blanks after it, the word
None between commas, balanced brackets, `Union[a, None]`, a pipe; next to `int` and `None` -/
example : literalItemsOK ["'p,q'".toList, "'p ,q'".toList, "'p,  q'".toList, "'k, None, m'".toList,
      "'[a, b]'".toList, "'Union[a, None]'".toList, "'s | t'".toList] = true ∧
    (∀ f ∈ ["None".toList] ++ ["int".toList], closedLeaf f = true) := by decide

/-- the same through `get_optional_type`: `Optional[` + the kept members + `]`, the Literal verbatim -/
theorem literal_union_optional_partial (pre post items : List Str)
    (hother : ∀ f ∈ pre ++ post, closedLeaf f = true) (hok : literalItemsOK items = true) :
    getOptionalType false (unionOf (pre ++ [literalText items] ++ post)) =
      sOptionalPrefix ++ mkText (notNone pre ++ [literalText items] ++ notNone post) ++ [']'] := by
  have hk : ∀ f ∈ notNone pre ++ [literalText items] ++ notNone post, closedLeaf f = true ∧ f ≠ sNone := by
    intro f hf
    simp only [List.mem_append, List.mem_singleton, notNone, List.mem_filter, bne_iff_ne, ne_eq] at hf
    rcases hf with (h | h) | h
    · exact ⟨hother f (by simp [h.1]), h.2⟩
    · subst h; exact ⟨closedLeaf_literal items hok, literalText_ne_none items⟩
    · exact ⟨hother f (by simp [h.1]), h.2⟩
  have hm := mkText_ne_nil_none _ (by simp) hk
  have hr := literal_union_kept_verbatim_partial pre post items hother hok
  generalize mkText (notNone pre ++ [literalText items] ++ notNone post) = t at hm hr
  unfold getOptionalType removeNone
  simp only [Bool.false_eq_true, if_false, hr]
  simp [hm.1, hm.2]

/-- values without square brackets are ALWAYS inside the region: no comma / blank / `None` / quote
pattern can take a bracket-free Literal out of it (the family of the round-6 regression: a splitter
that normalises the blanks around the commas inside members contradicts this theorem's model) -/
theorem literal_items_ok_of_bracket_free (items : List Str) (h : ∀ it ∈ items, bracketFree it = true) :
    literalItemsOK items = true := literalItemsOK_of_bracketFree items h

example : (∀ it ∈ ["'p,q'".toList, "'p ,q'".toList, "', None ,'".toList], bracketFree it = true) := by decide

/-- items that are closed one by one are inside the region (sufficient, not necessary) -/
theorem literal_items_ok_of_closed_items (items : List Str) (h : ∀ it ∈ items, itemClosed it = true) :
    literalItemsOK items = true := literalItemsOK_of_closed items h

example : (∀ it ∈ ["'[a, b]'".toList, "'f[1,2]'".toList], itemClosed it = true) ∧
    literalItemsOK ["'['".toList, "']'".toList] = true ∧ itemClosed "'['".toList = false := by decide

/-- REFUTATION of the full-strength statement (known finding C09-F8, C13's D9): a value with an open
bracket is outside the region, and `Optional[Union[Literal['x[', 'y'], int]]` loses its `Union[`:
the two members come back as ONE part. -/
theorem literal_union_bracket_witness :
    literalItemsOK ["'x['".toList, "'y'".toList] = false ∧
    removeNoneU (unionOf ([] ++ [literalText ["'x['".toList, "'y'".toList]] ++ ["int".toList])) =
      "Literal['x[', 'y'], int".toList ∧
    ¬ LiteralUnionKeptAlways := by
  have h1 : literalItemsOK ["'x['".toList, "'y'".toList] = false := by decide
  have h2 : removeNoneU (unionOf ([] ++ [literalText ["'x['".toList, "'y'".toList]] ++ ["int".toList])) =
      "Literal['x[', 'y'], int".toList := by decide
  refine ⟨h1, h2, ?_⟩
  intro hall
  have := hall [] ["int".toList] ["'x['".toList, "'y'".toList] (by decide)
  rw [h2] at this
  exact absurd this (by decide)

/-- the operator spelling has its own region (`re.split(r"\s*\|\s*")` ignores brackets and quotes):
inside it commas and brackets are harmless, outside it the VALUES change — `'a|b'` and `'a  |  b'`
both come back as `'a | b'`, `'a | None | b'` loses its `None` (known finding C09-F8) -/
theorem literal_pipe_witness :
    pipeItemsOK ["'p,q'".toList, "'x['".toList, "'s | t'".toList] = true ∧
    pipeItemsOK ["'a|b'".toList] = false ∧
    removeNoneB ("Literal['a|b', 'a  |  b'] | int".toList) = "Literal['a | b', 'a | b'] | int".toList ∧
    removeNoneB ("Literal['a | None | b'] | int".toList) = "Literal['a | b'] | int".toList := by
  decide

end LiteralUnion

end Dcg.Props.C09
