import Dcg.Proofs.Config
import Dcg.Proofs.KeyValue
import Dcg.Gen.CliTables
import Dcg.Proofs.PathNorm
/-
C18 — CLI flags, pyproject.toml settings and generate() arguments agree.
Table theorems are `decide +kernel` over the tables regenerated from /repo on every run
(Dcg/Gen/CliTables); the reviewed exception lists they mention are in Dcg/Model/Config.lean.
The merge lemmas hold for arbitrary option maps, defaults and validators.
-/
namespace Dcg.Props.C18
open Dcg.Model.Config Dcg.Proofs.Config Dcg.Gen.CliTables

/-- the argparse actions that are generator options (everything except help/no_color/version) -/
def optionActions : List Action := actions.filter (fun a => !metaDests.contains a.dest)

/-! ### Tables: the three declarations of the option set are in step -/

/-- Every option's argparse default is `None` — so "not None" in `merge_args` means "given on the
command line" and an absent flag never overrides pyproject — and the shared `namespace` object is
created without any option preset. -/
theorem cli_defaults_all_none :
    optionActions.all (fun a => a.defaultIsNone) = true ∧ optionActions.isEmpty = false ∧
    namespaceInit.all (fun kv => metaDests.contains kv.1) = true := by decide +kernel

/-- Every command-line option is a `Config` field, hence accepted in pyproject.toml and read by
`merge_args` (which iterates over the `Config` fields). -/
theorem cli_dests_subset_config :
    optionActions.all (fun a => (configFields.lookup a.dest).isSome) = true := by decide +kernel

/-- how a `Config` field reaches the `generate(...)` call of `main()` -/
def forwardedOK (f : Nat) : Bool :=
  consumedInMain.contains f ||
  specialForward.any (fun s => s.1 == f && mainGenerateCall.contains (s.2.1, s.2.2) &&
    (generateParams.lookup s.2.1).isSome) ||
  (mainGenerateCallAttr.contains (rename f, k! "config", f) && (generateParams.lookup (rename f)).isSome)

/-- Every `Config` field that is an option is passed to `generate()` as `config.<field>` under the
same keyword (or a reviewed rename / reviewed loader expression); the call is the only one, is
keyword-only, and names only parameters `generate()` has. -/
theorem config_fields_forwarded :
    configFields.all (fun kv => forwardedOK kv.1) = true ∧
    mainGenerateCall.all (fun kv => (generateParams.lookup kv.1).isSome) = true ∧
    mainGenerateCallPositional = false ∧ mainGenerateCallCount = 1 := by decide +kernel

/-- the default a `Config` field has equals the default of the `generate()` parameter it is
forwarded to (reviewed exceptions: `defaultDiffers`) — "option not given" means the same thing
on the command line and in a `generate()` call -/
theorem defaults_agree :
    configFields.all (fun kv =>
      consumedInMain.contains kv.1 || specialForward.any (fun s => s.1 == kv.1) ||
      defaultDiffers.contains kv.1 || generateParams.lookup (rename kv.1) == some kv.2) = true := by
  decide +kernel

/-- how a parameter of `generate()` reaches the parser constructor -/
def parserKw (p : Nat) : Bool :=
  (consumedInGenerate.lookup p).isSome || parserCall.contains (p, p) ||
  parserCallSpecial.any (fun s => s.1 == p && parserCall.contains s)

def paramsOf (cls : Nat) : List Nat := ((parserParams.lookup cls).getD []).map (·.1)

/-- Every parameter of `generate()` that is a generator option is passed on to the parser
constructor under its own name (identity expression or a reviewed conditional); every keyword of
that call is a constructor parameter of all three parser classes; the two reviewed detours
(`openapi_scopes` through `kwargs`, `output_datetime_class` as `target_datetime_class`) are there. -/
theorem generate_params_forwarded_to_parser :
    generateParams.all (fun kv => parserKw kv.1) = true ∧
    parserCall.all (fun kv => kv.1 == k! "**" ||
      [k! "JsonSchemaParser", k! "OpenAPIParser", k! "GraphQLParser"].all (fun c => (paramsOf c).contains kv.1)) = true ∧
    parserCallKwargs.all (fun kv => (paramsOf k! "OpenAPIParser").contains kv.1) = true ∧
    parserCallKwargs.contains (k! "openapi_scopes", k! "openapi_scopes") = true ∧
    parserCall.contains (k! "target_datetime_class", k! "output_datetime_class") = true ∧
    parserCallPositional = false ∧ parserCallCount = 1 := by decide +kernel

/-- Each parser subclass hands every constructor parameter it does not consume itself to
`Parser.__init__` under the same name. -/
theorem parser_subclasses_forward_to_base :
    superInitCalls.all (fun ck =>
      (paramsOf ck.1).all (fun p =>
        subclassOwnParams.contains (ck.1, p) ||
        (ck.2.contains (p, p) && (paramsOf k! "Parser").contains p)) &&
      !(paramsOf ck.1).isEmpty) = true ∧ superInitCalls.length = 3 := by decide +kernel

/-- Exit status: every `return` of `main()` is `Exit.ERROR` preceded by a message on stderr, or the
single `Exit.OK` at the end of the `try … else`; `--version` exits 0. -/
theorem exit_paths_report :
    mainReturns.all (fun r => (r.1 == k! "Exit.ERROR" && r.2) || r.1 == k! "Exit.OK" || r.1 == k! "sys.exit(0)") = true ∧
    (mainReturns.filter (fun r => r.1 == k! "Exit.OK")).length = 1 ∧
    (mainReturns.getLast?.map (·.1)) = some k! "Exit.OK" := by decide +kernel

/-! ### Merge: universal lemmas (any defaults, any validators, any option maps) -/

/-- An option given on the command line wins over pyproject.toml and over the default. -/
theorem merge_cli_wins (E : Env) (py : OptMap) (cli : List (Key × Option Val)) (c : Cfg) (k : Key) (v : Val)
    (hm : merge E py cli = some c) (hk : (given cli).lookup k = some v)
    (h1 : k ≠ kUA) (h2 : k ≠ kFC) : c k = v := by
  obtain ⟨c0, p, _, hp, rfl⟩ := merge_some hm
  have hs : (setArgs cli).lookup k = some v := by rw [lookup_setArgs_ne cli h1 h2, hk]
  have hp' := parse_some hp
  subst hp'
  simp [hasKey, hs, validateRoot_ne _ h2, over]

/-- In particular a FALSY value — the empty string of `--special-field-name-prefix ""`, `--base-class ""`,
`--custom-file-header ""`, `--empty-enum-field-name ""` — is a given value and wins like any other:
the model keeps `some ""` apart from `none`. -/
theorem merge_cli_wins_empty (E : Env) (py : OptMap) (cli : List (Key × Option Val)) (c : Cfg) (k : Key)
    (hm : merge E py cli = some c) (hk : (given cli).lookup k = some (k! ""))
    (h1 : k ≠ kUA) (h2 : k ≠ kFC) : c k = k! "" :=
  merge_cli_wins E py cli c k (k! "") hm hk h1 h2

/-- non-vacuity with the empty string: pyproject says "px", the command line says "" → "" is effective;
an absent flag (`none`) leaves "px"; and `given` keeps the empty value -/
example :
    (merge ⟨fun _ => k! "dflt", fun _ => true⟩ [(k! "special_field_name_prefix", k! "px")]
      [(k! "special_field_name_prefix", some (k! ""))]).map (· (k! "special_field_name_prefix")) = some (k! "") ∧
    (merge ⟨fun _ => k! "dflt", fun _ => true⟩ [(k! "special_field_name_prefix", k! "px")]
      [(k! "special_field_name_prefix", none)]).map (· (k! "special_field_name_prefix")) = some (k! "px") ∧
    given [(k! "a", some (k! "")), (k! "b", none)] = [(k! "a", k! "")] ∧ truthy (k! "") = false := by
  decide +kernel

/-- `merge_args` selects the command-line values by the reviewed test `is not None` (source text of the
comprehension's condition, regenerated), which is what `given` models. -/
theorem merge_filter_is_identity_with_none : mergeArgsFilters = reviewedMergeFilters := by decide +kernel

/-- the same for the two coupled flags, whose command-line value can only be `True` -/
theorem merge_cli_wins_flag (E : Env) (py : OptMap) (cli : List (Key × Option Val)) (c : Cfg) (k : Key)
    (hm : merge E py cli = some c) (hk : (given cli).lookup k = some k! "True")
    (h : k = kUA ∨ k = kFC) : c k = k! "True" := by
  obtain ⟨c0, p, _, hp, rfl⟩ := merge_some hm
  have hp' := parse_some hp
  subst hp'
  have hs : (setArgs cli).lookup k = some k! "True" := by
    unfold setArgs coupleAnnotated coupleMsgspec
    rcases h with rfl | rfl
    · split <;> split <;>
        simp_all [lookup_upsert_ne _ _ kUA_ne_kFC, lookup_upsert_self]
    · split <;> split <;>
        simp_all [lookup_upsert_ne _ _ kUA_ne_kFC.symm, lookup_upsert_self]
  simp only [hasKey, hs, Option.isSome_some, if_true]
  unfold validateRoot
  split
  · rfl
  · simp [over, hs]

example : (merge ⟨fun _ => k! "False", fun _ => true⟩ [(k! "snake_case_field", k! "False"), (k! "x", k! "1")]
    [(k! "snake_case_field", some k! "True"), (k! "x", none)]).map (fun c => (c k! "snake_case_field", c k! "x")) =
    some (k! "True", k! "1") := by decide +kernel

/-- An option not given on the command line (and not one of the two coupled flags) keeps the value
pyproject.toml gave it, or the default. -/
theorem merge_pyproject_when_cli_absent (E : Env) (py : OptMap) (cli : List (Key × Option Val)) (c : Cfg)
    (k : Key) (hm : merge E py cli = some c) (hk : (given cli).lookup k = none)
    (h1 : k ≠ kUA) (h2 : k ≠ kFC) : c k = (py.lookup k).getD (E.defaults k) := by
  obtain ⟨c0, p, hc0, _, rfl⟩ := merge_some hm
  have hs : (setArgs cli).lookup k = none := by rw [lookup_setArgs_ne cli h1 h2, hk]
  have hc := parse_some hc0
  subst hc
  simp [hasKey, hs, validateRoot_ne _ h2, over]

/-- pyproject discovery takes the NEAREST directory that has the section, and never looks past a
repository root (`.git`) -/
theorem discover_nearest (ds : List Dir) (i : Nat) (h : discover ds = some i) :
    (∃ d, ds[i]? = some d ∧ d.hasSection = true) ∧
    ∀ j, j < i → ∃ d, ds[j]? = some d ∧ d.hasSection = false ∧ d.hasGit = false := by
  induction ds generalizing i with
  | nil => simp [discover] at h
  | cons d ds ih =>
    unfold discover at h
    split at h
    · rename_i hs
      cases h
      exact ⟨⟨d, by simp, hs⟩, by intro j hj; omega⟩
    · rename_i hs
      split at h
      · cases h
      · rename_i hg
        cases hd : discover ds with
        | none => simp [hd] at h
        | some i' =>
          simp [hd] at h
          subst h
          obtain ⟨⟨d', hd1, hd2⟩, hall⟩ := ih i' hd
          refine ⟨⟨d', by simpa using hd1, hd2⟩, ?_⟩
          intro j hj
          cases j with
          | zero => exact ⟨d, by simp, by simpa using hs, by simpa using hg⟩
          | succ j' =>
            obtain ⟨d'', h1, h2, h3⟩ := hall j' (by omega)
            exact ⟨d'', by simpa using h1, h2, h3⟩

example : discover [⟨false, false⟩, ⟨true, false⟩, ⟨true, true⟩] = some 1 := by decide

/-! ### Value-carrying options (`--http-headers`, `--http-query-parameters`): the spelling
`name<sep>value` of the command line / pyproject.toml and the pair `(name, value)` of `generate()` -/
section KeyValue
open Dcg.Model.KeyValue Dcg.Proofs.KeyValue

/-- The validator cuts an item at the FIRST separator: for every separator-free name and EVERY value
(one that contains the separator again — a URL or `host:port` in a header, base64 padding in a query
parameter —, blanks, quotes, any character) `name<sep>value` is accepted and gives
`(name, value.lstrip())`. -/
theorem keyvalue_split_at_first_separator (sep : Char) (name value : Str) (h : sep ∉ name) :
    parseItem sep (name ++ sep :: value) = some (name, lstrip value) := by
  simp [parseItem, splitFirst_append sep name value h]

/-- The inverse: every pair `(name, value)` that `generate(http_headers=[(name, value)])` takes — name
without the separator, value not beginning with a blank, otherwise arbitrary — has a command-line /
pyproject spelling (`name`, separator, any run of blanks, `value`) and the validator gives back exactly
that pair: the three ways of supplying the option can agree on every such value. -/
theorem keyvalue_roundtrip (sep : Char) (pad name value : Str) (hn : sep ∉ name)
    (hp : ∀ c ∈ pad, isSpace c = true) (hv : ∀ c, value.head? = some c → isSpace c = false) :
    parseItem sep (render sep pad (name, value)) = some (name, value) := by
  unfold render
  rw [keyvalue_split_at_first_separator sep name (pad ++ value) hn, lstrip_pad pad value hp,
    lstrip_id value hv]

/-- the same for the whole list an option carries -/
theorem keyvalue_items_roundtrip (sep : Char) (pad : Str) (nvs : List (Str × Str))
    (hp : ∀ c ∈ pad, isSpace c = true)
    (h : ∀ nv ∈ nvs, sep ∉ nv.1 ∧ ∀ c, nv.2.head? = some c → isSpace c = false) :
    parseItems sep (nvs.map (render sep pad)) = some nvs := by
  induction nvs with
  | nil => rfl
  | cons nv rest ih =>
    obtain ⟨n, v⟩ := nv
    have h0 := h (n, v) (by simp)
    have hr : parseItems sep (rest.map (render sep pad)) = some rest :=
      ih (fun x hx => h x (by simp [hx]))
    unfold parseItems at hr ⊢
    simp only [List.map_cons, List.mapM_cons, keyvalue_roundtrip sep pad n v h0.1 hp h0.2, hr]
    rfl

/-- An item is rejected (`Error: Invalid http header / http query parameter`) exactly when it contains
no separator at all. -/
theorem keyvalue_rejected_iff_no_separator (sep : Char) (s : Str) :
    parseItem sep s = none ↔ sep ∉ s := by
  simp [parseItem, splitFirst_none_iff]

/-- What the validator returns is the text cut at a separator that the name does not contain, and
nothing but leading blanks of the value is lost. -/
theorem keyvalue_parse_sound (sep : Char) (s n v : Str) (h : parseItem sep s = some (n, v)) :
    sep ∉ n ∧ ∃ w, s = n ++ sep :: w ∧ v = lstrip w := by
  unfold parseItem at h
  cases hs : splitFirst sep s with
  | none => simp [hs] at h
  | some p =>
    obtain ⟨n', w⟩ := p
    simp [hs] at h
    obtain ⟨rfl, rfl⟩ := h
    obtain ⟨h1, h2⟩ := splitFirst_some sep s n' w hs
    exact ⟨h1, w, h2, rfl⟩

/-- non-vacuity: values that contain their own separator; a separator-free text is rejected -/
example :
    parseItem headerSep "X-Origin: https://h:8443/p".toList = some ("X-Origin".toList, "https://h:8443/p".toList) ∧
    parseItem querySep "token=abc==".toList = some ("token".toList, "abc==".toList) ∧
    parseItem headerSep "token=abc==".toList = none ∧
    parseItems querySep ["a=1".toList, "b= x=y".toList] = some [("a".toList, "1".toList), ("b".toList, "x=y".toList)] ∧
    headerSep ∉ "X-Origin".toList ∧ (∀ c, "https://h:8443/p".toList.head? = some c → isSpace c = false) := by
  decide

end KeyValue


/-! ### Path-valued options: the same text names the same real location on every route -/
section Paths
open Dcg.Model.PathNorm Dcg.Proofs.PathNorm

/-- every argparse action of option `d` leaves the command-line text a `str` -/
def cliKeepsText (d : Nat) : Bool := actionTypes.all (fun a => a.1 != d || strTypes.contains a.2)

/-- FULL STRENGTH (false of the code, see `path_routes_alike_false`): every path-valued `Config` field is handed the
SAME thing — the text — by the command line and by pyproject.toml. -/
def PathRoutesAlike : Prop := pathFields.all (fun f => cliKeepsText f.1) = true

/-- REFUTATION on the regenerated tables (finding C18-filetype): `--aliases` (and the two other options of
`cliOpensRawString`) is `type=FileType("rt")` — argparse opens the raw text (`~` not expanded) while the pyproject.toml
text goes through `Path(value).expanduser().resolve().open`. -/
theorem path_routes_alike_false : ¬ PathRoutesAlike := by
  unfold PathRoutesAlike; decide +kernel

/-- PARTIAL, kernel-checked over the regenerated tables: the path-valued fields are exactly the reviewed ones; outside the
reviewed `FileType` options the argparse `type=` of every path-valued option is None/`str`, so `merge_args` hands the
validator the same `str` that `Config.parse_obj(pyproject)` hands it; every such field has exactly the reviewed
`mode="before"` validator, whose source is the reviewed one (`None`/built object untouched, a string ↦
`Path(value).expanduser().resolve()`); the excepted options really are `FileType` file fields. -/
theorem path_fields_same_normalisation_partial :
    pathFields = reviewedPathFields ∧
    pathFields.all (fun f => cliOpensRawString.contains f.1 || cliKeepsText f.1) = true ∧
    pathFields.all (fun f => fieldValidators.lookup f.1 == some [pathValidator f.2]) = true ∧
    validatorBranches = reviewedValidatorBranches ∧
    cliOpensRawString.all (fun d => actionTypes.contains (d, k! "FileType") && pathFields.contains (d, k! "file")) = true := by
  decide +kernel

/-- non-vacuity: four fields satisfy the string-type condition itself, not the exception -/
example : (pathFields.filter (fun f => !cliOpensRawString.contains f.1 && cliKeepsText f.1)).length = 4 := by decide +kernel

/-- Why the table obligation is the right one: when the argparse `type=` is None or `str`, the command-line route and the
pyproject.toml route give the validator the same input, hence the same location or the same refusal — for EVERY text,
HOME and working directory. -/
theorem path_str_routes_agree (t : ArgType) (home cwd v : Str) (h : t = .none ∨ t = .str) :
    validatePath home cwd (cliSees t v) = validatePath home cwd (.str v) := by
  rcases h with rfl | rfl <;> rfl

/-- … and it is necessary: with `type=Path` the validator's "already a Path" branch returns the value untouched, so a
leading `~` is expanded for the pyproject.toml text but not for the same text on the command line. -/
theorem path_type_breaks_tilde :
    validatePath "/h".toList "/w".toList (cliSees .path "~/m.py".toList) = some "~/m.py".toList ∧
    validatePath "/h".toList "/w".toList (.str "~/m.py".toList) = some "/h/m.py".toList := by decide

example : validatePath "/h".toList "/w".toList (cliSees .none "~/m.py".toList) = some "/h/m.py".toList := by decide

/-- A leading `~/` names a location below HOME whatever the working directory is: the parts of HOME followed by the
parts of the rest, resolved from the root. -/
theorem tilde_names_home (home cwd : List Str) (rest : Str) :
    normaliseParts home cwd ('~' :: '/' :: rest) = some (resolveParts (home ++ comps rest)) := by
  simp [normaliseParts, comps_tilde_slash, isAbs]

/-- An absolute text names the same location whatever HOME and the working directory are. -/
theorem absolute_ignores_home_cwd (home cwd home' cwd' : List Str) (v : Str) (h : isAbs v = true) :
    normaliseParts home cwd v = normaliseParts home' cwd' v := by
  simp [normaliseParts, h]

example : isAbs "/data/x/../m.py".toList = true ∧
    normaliseParts ["h".toList] ["w".toList] "/data/x/../m.py".toList = some ["data".toList, "m.py".toList] := by decide

/-- The resolved parts contain no `..` … -/
theorem resolve_no_dotdot (cs : List Str) : ∀ c ∈ resolveParts cs, c ≠ dotdot := by
  intro c hc
  exact walk_no_dotdot cs [] (by simp) c (by simpa [resolveParts] using hc)

/-- … hence resolving them again changes nothing: a `generate()` call that is given the expanded, resolved path (the
third route) lands at the same location as the text on the command line / in pyproject.toml. -/
theorem resolve_idempotent (cs : List Str) : resolveParts (resolveParts cs) = resolveParts cs := by
  unfold resolveParts
  rw [walk_plain (walk [] cs).reverse [] (by
    intro c hc
    exact walk_no_dotdot cs [] (by simp) c (by simpa using hc))]
  simp

/-- the location named by any accepted text is a fixed point of the resolution -/
theorem normalised_is_resolved (home cwd : List Str) (v : Str) (p : List Str)
    (h : normaliseParts home cwd v = some p) : resolveParts p = p := by
  have hex : ∃ cs, p = resolveParts cs := by
    unfold normaliseParts at h
    dsimp only at h
    split at h
    · exact ⟨_, (Option.some.inj h).symm⟩
    · split at h
      · exact ⟨_, (Option.some.inj h).symm⟩
      · split at h
        · exact ⟨_, (Option.some.inj h).symm⟩
        · split at h
          · cases h
          · exact ⟨_, (Option.some.inj h).symm⟩
  obtain ⟨cs, rfl⟩ := hex
  exact resolve_idempotent cs

/-- non-vacuity: `..` above HOME's child, a `~user` text is refused, a relative text is joined to the working directory -/
example :
    normalise "/r/home".toList "/r/proj/work".toList "~/a/../cfg/m.py".toList = some "/r/home/cfg/m.py".toList ∧
    normalise "/r/home".toList "/r/proj/work".toList "~nobody/m.py".toList = none ∧
    normalise "/r/home".toList "/r/proj/work".toList "../side//./m.py/".toList = some "/r/proj/side/m.py".toList ∧
    normalise "/r/home".toList "/r/proj/work".toList "/../x".toList = some "/x".toList ∧
    normaliseParts ["r".toList] ["w".toList] "a/..".toList = some ["w".toList] := by decide

end Paths

/-! ### The three ways of supplying an option set -/

/-- the environment of the real `Config`: defaults from the generated table, the real validators -/
def realEnv : Env :=
  ⟨fun k => (configFields.lookup k).getD (k! "None"), validConcrete kwOnlyTargets⟩

/-- FULL STRENGTH (false of the code, see `three_ways_disagree_msgspec`): whatever set of options,
the effective value of every option is the same given on the command line or in pyproject.toml. -/
def ThreeWaysAgree (E : Env) : Prop :=
  ∀ (opts : OptMap) (k : Key), (viaCli E opts).map (· k) = (viaPyproject E opts).map (· k)

/-- REFUTATION on the real tables (known finding D15): `output-model-type = "msgspec.Struct"` forces
`use_annotated` (and with it `field_constraints`) only when it comes from the command line. -/
theorem three_ways_disagree_msgspec :
    (viaCli realEnv [(kOMT, msgspec)]).map (fun c => (c kUA, c kFC)) = some (k! "True", k! "True") ∧
    (viaPyproject realEnv [(kOMT, msgspec)]).map (fun c => (c kUA, c kFC)) = some (k! "False", k! "False") := by
  decide +kernel

theorem three_ways_agree_false : ¬ ThreeWaysAgree realEnv := by
  intro h
  have h' := h [(kOMT, msgspec)] kUA
  revert h'
  decide +kernel

/-- PARTIAL: as long as the option set does not select msgspec (decidable), the command line and
pyproject.toml give every option the same effective value — including whether the run is rejected
by a validator. Hypotheses on the environment: the default of `use_annotated` is falsy and the
empty configuration is valid (both hold of the real tables, see the `example` below). -/
theorem three_ways_agree_partial (E : Env) (opts : OptMap) (k : Key)
    (hd : truthy (E.defaults kUA) = false) (h0 : (parse E []).isSome = true)
    (hm : opts.lookup kOMT ≠ some msgspec) :
    (viaCli E opts).map (· k) = (viaPyproject E opts).map (· k) := by
  unfold viaCli viaPyproject merge
  rw [setArgs_nil]
  have hA : parse E (setArgs (opts.map (fun kv => (kv.1, some kv.2)))) = parse E opts := by
    unfold parse setArgs
    rw [given_map_some, validateRoot_setArgs _ _ hm]
  rw [hA]
  obtain ⟨c0, hc0⟩ := Option.isSome_iff_exists.mp h0
  rw [hc0]
  cases hP : parse E opts with
  | none => rfl
  | some P =>
    have hPe := parse_some hP
    have hce := parse_some hc0
    simp only [Option.map_some, hasKey, List.lookup, Option.isSome_none]
    congr 1
    unfold setArgs
    rw [given_map_some]
    have hcm : coupleMsgspec opts = opts := by simp [coupleMsgspec, hm]
    rw [hcm]
    by_cases hin : ((coupleAnnotated opts).lookup k).isSome = true
    · simp [hin]
    · simp only [hin, Bool.false_eq_true, if_false]
      subst hPe hce
      have hnone : (coupleAnnotated opts).lookup k = none := by
        cases h : (coupleAnnotated opts).lookup k <;> simp_all
      by_cases hk : k = kFC
      · subst hk
        -- field_constraints was not added by the coupling, so use_annotated is not truthy
        unfold coupleAnnotated at hnone
        split at hnone
        · rw [lookup_upsert_self] at hnone; cases hnone
        · rename_i hua
          have hu : truthy (over E.defaults opts kUA) = false := by
            unfold over
            cases hl : opts.lookup kUA with
            | none => simpa using hd
            | some u => simpa [hl] using hua
          have hu0 : truthy (over E.defaults [] kUA) = false := by simpa [over, List.lookup] using hd
          have e1 : validateRoot (over E.defaults opts) kFC = over E.defaults opts kFC := by
            simp [validateRoot, hu]
          have e2 : validateRoot (over E.defaults []) kFC = over E.defaults [] kFC := by
            simp [validateRoot, hu0]
          rw [e1, e2]
          simp [over, hnone, List.lookup]
      · rw [validateRoot_ne _ hk, validateRoot_ne _ hk]
        have hopts : opts.lookup k = none := by
          unfold coupleAnnotated at hnone
          split at hnone
          · rwa [lookup_upsert_ne _ _ hk] at hnone
          · exact hnone
        simp [over, hopts, List.lookup]

/-- non-vacuity: the real tables satisfy the environment hypotheses, and a non-trivial option set
satisfies the msgspec-freeness hypothesis -/
example : truthy (realEnv.defaults kUA) = false ∧ (parse realEnv []).isSome = true ∧
    ([(k! "use_annotated", k! "True"), (kOMT, k! "typing.TypedDict")] : OptMap).lookup kOMT ≠ some msgspec := by
  decide +kernel

/-- REFUTATION (known finding C18-split): the validators run on the command-line part alone, so an option set
that is accepted when given in one place is rejected when split between pyproject.toml and the
command line — and a combination the validators reject is accepted when split the other way.
(The label "D22" this comment once carried belongs to C07's special-prefix finding, which is repaired and unrelated.) -/
theorem split_supply_disagrees :
    (merge realEnv [] [(k! "snake_case_field", some k! "True"), (k! "original_field_name_delimiter", some k! " ")]).isSome = true ∧
    (merge realEnv [(k! "snake_case_field", k! "True")] [(k! "original_field_name_delimiter", some k! " ")]).isSome = false ∧
    (merge realEnv [] [(kOMT, some k! "dataclasses.dataclass"), (k! "keyword_only", some k! "True")]).isSome = false ∧
    (merge realEnv [(kOMT, k! "dataclasses.dataclass")] [(k! "keyword_only", some k! "True")]).isSome = true := by
  decide +kernel

end Dcg.Props.C18
