import Dcg.Proofs.Repr
import Dcg.Proofs.Escape
import Dcg.Props.C10
/-
C01 — generation terminates and every emitted module is valid Python.

No Python grammar is modelled.  What is proved here, for all inputs:
 * lexical integrity of every `repr()`-rendered slot (defaults, `Field(...)` arguments, aliases,
   Literal members): the text is one complete string literal that evaluates to the input and the
   lexer continues exactly behind it — so no input string placed through `repr` can change how
   the rest of the module is tokenised;
 * the abstract termination argument for the two fix-point loops of the JSON-Schema parser
   (`reserved_refs` loop in `_parse_file`, recursion of `_resolve_unparsed_json_pointer`);
 * (imported from the models of C07 / C06 / C11 once present) fuel bounds of the identifier
   retry loop, the unique-name loop and model sorting.
Grammatical validity of the token skeletons is established by `ast.parse` over the campaign
(partial claim, see MANIFEST).
-/
namespace Dcg.Props.C01
open Dcg.Py.Lex Dcg.Py.Repr Dcg.Proofs.Repr

/-- `repr(s)` of ANY string, for ANY notion of printability, followed by anything that does not
start with the same quote, is read back by Python's lexer as exactly `s`, and the lexer resumes
exactly at `rest`. -/
theorem repr_slot_exact (pr : Char → Bool) (s rest : List Char)
    (hrest : rest.head? ≠ some (reprQuote s)) :
    lit (reprQuote s) (reprStr pr s ++ rest) = some (s, rest) :=
  repr_roundtrip pr s rest hrest

/-- non-vacuity: quotes of both kinds, a backslash, a newline, NUL and a non-ASCII character,
followed by the `,` that separates `Field(...)` arguments -/
example : lit '\'' (reprStr (fun _ => true) ['\'', '"', '\\', '\n', Char.ofNat 0, 'é'] ++ [',']) =
    some (['\'', '"', '\\', '\n', Char.ofNat 0, 'é'], [',']) :=
  repr_slot_exact _ _ _ (by decide)

/-- `repr` always chooses one of the two short quotes (never a triple quote) -/
theorem repr_quote_short (s : List Char) : reprQuote s = '\'' ∨ reprQuote s = '"' :=
  reprQuote_cases s

/-- **Fix-point loops terminate.** Both loops have the shape “repeat while a set that only grows
inside a finite universe changed”: `reserved_refs` ⊆ the `$ref` strings of the document;
`loaded` pointers ⊆ the same set.  For any non-decreasing, bounded size sequence there is a round
`i ≤ U` after which nothing changed — the exit condition of the loop. -/
theorem growing_bounded_stabilises (U : Nat) (sz : Nat → Nat)
    (mono : ∀ i, sz i ≤ sz (i + 1)) (bound : ∀ i, sz i ≤ U) :
    ∃ i, i ≤ U ∧ sz (i + 1) = sz i := by
  suffices h : ∀ k, (∃ i, i < k ∧ sz (i + 1) = sz i) ∨ k ≤ sz k by
    rcases h (U + 1) with ⟨i, hi, he⟩ | hk
    · exact ⟨i, by omega, he⟩
    · have := bound (U + 1); omega
  intro k
  induction k with
  | zero => right; omega
  | succ k ih =>
    rcases ih with ⟨i, hi, he⟩ | hk
    · left; exact ⟨i, by omega, he⟩
    · by_cases heq : sz (k + 1) = sz k
      · left; exact ⟨k, by omega, heq⟩
      · right; have := mono k; omega

/-- non-vacuity: a sequence that grows twice and then stays -/
example : ∃ i, i ≤ 3 ∧ (fun n => min n 2) (i + 1) = (fun n => min n 2) i :=
  growing_bounded_stabilises 3 (fun n => min n 2)
    (by intro i; show min i 2 ≤ min (i + 1) 2; omega) (by intro i; show min i 2 ≤ 3; omega)

/-- **Template text is lexically closed around every interpolation site** (proved in
`Dcg/Props/C10.lean` by the kernel over the site table regenerated from the Jinja sources on this
run): every site stands in exactly one lexical state that its value class may occupy, schema text
reaches a docstring only through `escape_docstring`, `#`-comment sites are fed line by line from
`str.splitlines()`, and every template ends in code state (or in a comment closed by the newline
that joins models). A template edit that moves a site into another lexical context breaks this
obligation. -/
theorem template_sites_lexically_safe :
    (Dcg.Gen.Templates.sites.all (fun s => match s.states with
      | [st] => Dcg.Model.Sites.allowed (Dcg.Model.Sites.classify s.expr s.filters) st
      | _ => false) = true) ∧
    (Dcg.Gen.Templates.finals.all (fun f => f.2.all (fun st => st == "code" || st == "comment")) = true) ∧
    ((Dcg.Gen.Templates.sites.filter (fun s => Dcg.Model.Sites.classifyExpr s.expr == .commentLine)).all (fun s =>
      Dcg.Gen.Templates.sites.any (fun h => h.template == s.template &&
        Dcg.Model.Sites.reviewedLineLoops.contains h.expr)) = true) :=
  ⟨Dcg.Props.C10.site_safe, Dcg.Props.C10.templates_end_neutral, Dcg.Props.C10.comment_lines_from_splitlines⟩

/-- the docstring around an escaped description is one literal that ends where the template ends it -/
theorem docstring_slot_exact (text pre post rest : List Char)
    (hpre : ∀ c ∈ pre, c = ' ' ∨ c = '\n') (hpost : ∀ c ∈ post, c = ' ') :
    scanLong '"' (pre ++ Dcg.Model.Escape.escDoc 0 text ++ '\n' :: post ++ ['"', '"', '"'] ++ rest) =
      some (pre ++ Dcg.Model.Escape.normNL (text ++ ['\n']) ++ post, rest) :=
  Dcg.Props.C10.docstring_literal_exact text pre post rest hpre hpost

end Dcg.Props.C01
