import Dcg.Proofs.Repr
import Dcg.Proofs.Escape
import Dcg.Props.C10
import Dcg.Proofs.TemplateBlockTop
import Dcg.Proofs.TemplateCheckBlockB
import Dcg.Proofs.TemplateCheckBlockC
import Dcg.Proofs.TemplateFixture
import Dcg.Gen.CodeSites
import Dcg.Gen.LoopSites
import Dcg.Proofs.Loops
import Dcg.Proofs.TemplateInv
import Dcg.Proofs.Placeholder
import Dcg.Proofs.ImportsDump
import Dcg.Proofs.PatternLit
/-
C01 — generation terminates and every emitted module is valid Python.

No Python grammar is modelled.  What is proved here, for all inputs:
 * lexical integrity of every `repr()`-rendered slot (defaults, `Field(...)` arguments, aliases,
   Literal members): the text is one complete string literal that evaluates to the input and the
   lexer continues exactly behind it — so no input string placed through `repr` can change how
   the rest of the module is tokenised;
 * the abstract termination argument for the two fix-point loops of the JSON-Schema parser
   (`reserved_refs` loop in `_parse_file`, recursion of `_resolve_unparsed_json_pointer`);
 * (imported from the models of C07 / C06 / C11 once present) fuel bounds of the identifier
   retry loop, the unique-name loop and model sorting.
Grammatical validity of the token skeletons is established by `ast.parse` over the campaign
(partial claim, see MANIFEST).
-/
namespace Dcg.Props.C01
open Dcg.Py.Lex Dcg.Py.Repr Dcg.Proofs.Repr

/-- `repr(s)` of ANY string, for ANY notion of printability, followed by anything that does not
start with the same quote, is read back by Python's lexer as exactly `s`, and the lexer resumes
exactly at `rest`. -/
theorem repr_slot_exact (pr : Char → Bool) (s rest : List Char)
    (hrest : rest.head? ≠ some (reprQuote s)) :
    lit (reprQuote s) (reprStr pr s ++ rest) = some (s, rest) :=
  repr_roundtrip pr s rest hrest

/-- non-vacuity: quotes of both kinds, a backslash, a newline, NUL and a non-ASCII character,
followed by the `,` that separates `Field(...)` arguments -/
example : lit '\'' (reprStr (fun _ => true) ['\'', '"', '\\', '\n', Char.ofNat 0, 'é'] ++ [',']) =
    some (['\'', '"', '\\', '\n', Char.ofNat 0, 'é'], [',']) :=
  repr_slot_exact _ _ _ (by decide)

/-- `repr` always chooses one of the two short quotes (never a triple quote) -/
theorem repr_quote_short (s : List Char) : reprQuote s = '\'' ∨ reprQuote s = '"' :=
  reprQuote_cases s

/-- **Fix-point loops terminate.** Both loops have the shape “repeat while a set that only grows
inside a finite universe changed”: `reserved_refs` ⊆ the `$ref` strings of the document;
`loaded` pointers ⊆ the same set.  For any non-decreasing, bounded size sequence there is a round
`i ≤ U` after which nothing changed — the exit condition of the loop. -/
theorem growing_bounded_stabilises (U : Nat) (sz : Nat → Nat)
    (mono : ∀ i, sz i ≤ sz (i + 1)) (bound : ∀ i, sz i ≤ U) :
    ∃ i, i ≤ U ∧ sz (i + 1) = sz i := by
  suffices h : ∀ k, (∃ i, i < k ∧ sz (i + 1) = sz i) ∨ k ≤ sz k by
    rcases h (U + 1) with ⟨i, hi, he⟩ | hk
    · exact ⟨i, by omega, he⟩
    · have := bound (U + 1); omega
  intro k
  induction k with
  | zero => right; omega
  | succ k ih =>
    rcases ih with ⟨i, hi, he⟩ | hk
    · left; exact ⟨i, by omega, he⟩
    · by_cases heq : sz (k + 1) = sz k
      · left; exact ⟨k, by omega, heq⟩
      · right; have := mono k; omega

/-- non-vacuity: a sequence that grows twice and then stays -/
example : ∃ i, i ≤ 3 ∧ (fun n => min n 2) (i + 1) = (fun n => min n 2) i :=
  growing_bounded_stabilises 3 (fun n => min n 2)
    (by intro i; show min i 2 ≤ min (i + 1) 2; omega) (by intro i; show min i 2 ≤ 3; omega)

/-! ### The fix-point loops as they are in the code

`growing_bounded_stabilises` is the abstract argument; the theorems below tie it to the sources.
`Gen/LoopSites` lists, from the AST of `parser/jsonschema.py` and `parser/openapi.py` as they are on
this run, every `while` loop and every parameterless self-recursion with the exits it has. -/

/-- **Every fix-point loop of the parsers has an exit that does not depend on the growth of
`results`.** Each loop is a self-recursion (bounded by the interpreter's recursion limit:
`recursion_on_count_ends`) or has a reviewed exit on a quantity that the document bounds
(`setUnchanged`: the reserved `$ref` set is what it was after the previous pass — the hypothesis
`bound` of `growing_bounded_stabilises` holds for it because `reserved_refs_only_grow`; or an
explicit iteration limit).  A loop whose only exit is "this pass appended no model"
(`while model_count != len(self.results)`) is not accepted: `results` is not bounded by the document
(`count_exit_alone_is_no_bound`).  Any other shape the translator meets is `other:…` and not accepted
either.  There are such loops (the list is not empty). -/
theorem fixpoint_loops_have_independent_exit :
    Dcg.Gen.LoopSites.loopSites.all Dcg.Model.Loops.independentExit = true ∧
    Dcg.Gen.LoopSites.loopSites ≠ [] := by decide

/-- `self.reserved_refs` is created once and only ever added to (no `remove`, `discard`, `clear`,
`pop`, re-assignment or `del` anywhere in the parsers): the reserved set of a file only grows —
`mono` of `growing_bounded_stabilises`, as an obligation on the sources instead of an assumption. -/
theorem reserved_refs_only_grow :
    Dcg.Gen.LoopSites.reservedRefsMutations.all Dcg.Model.Loops.growsOnly = true ∧
    Dcg.Gen.LoopSites.reservedRefsMutations ≠ [] := by decide

/-- **A repetition written as self-recursion ends** — for every pass function and every count: after
at most `depth` passes (the interpreter's recursion limit) the run has ended, either with
RecursionError (`none`) or in the state after `k + 1 ≤ depth` passes, the last of which did not
change the count. -/
theorem recursion_on_count_ends {σ : Type} (pass : σ → σ) (count : σ → Nat) (depth : Nat) (s : σ) :
    Dcg.Model.Loops.resolveRec pass count depth s = none ∨
      ∃ k, k < depth ∧
        Dcg.Model.Loops.resolveRec pass count depth s = some (Dcg.Model.Loops.iter pass (k + 1) s) ∧
        count (Dcg.Model.Loops.iter pass (k + 1) s) = count (Dcg.Model.Loops.iter pass k s) :=
  Dcg.Proofs.Loops.resolveRec_ends pass count depth s

/-- **"This pass appended nothing" is not a bound.** With a pass that appends a model every time (a
reserved pointer that is never marked as loaded, e.g. one with an empty segment) the recursion ends
with RecursionError for every limit, and the same repetition written as `while the count changed` is
still running after any number of passes.  This is why `independentExit` does not accept
`countUnchanged`. -/
theorem count_exit_alone_is_no_bound :
    (∀ depth s, Dcg.Model.Loops.resolveRec (fun n : Nat => n + 1) id depth s = none) ∧
    (∀ fuel s, Dcg.Model.Loops.resolveWhile (fun n : Nat => n + 1) id fuel s = none) :=
  ⟨Dcg.Proofs.Loops.resolveRec_growing_is_error, Dcg.Proofs.Loops.count_exit_alone_can_diverge⟩

/-- …whereas under the hypotheses of `growing_bounded_stabilises` (count never decreases and is
bounded by `U`) the `while` form ends within `U + 1` passes — the hypothesis, not the loop, is what
the code fails to provide. -/
theorem while_on_bounded_count_ends {σ : Type} (pass : σ → σ) (count : σ → Nat) (U : Nat)
    (mono : ∀ s, count s ≤ count (pass s)) (bound : ∀ s, count s ≤ U) (s : σ) :
    (Dcg.Model.Loops.resolveWhile pass count (U + 1) s).isSome = true :=
  Dcg.Proofs.Loops.resolveWhile_bounded_ends pass count U mono bound (U + 1) s (by omega)

/-- non-vacuity: a pass that grows twice and then stays ends after three passes in both forms; the
shapes as they are accepted / rejected -/
example : Dcg.Model.Loops.resolveRec (fun n => min (n + 1) 2) id 1000 0 = some 2 := by decide
example : Dcg.Model.Loops.resolveWhile (fun n => min (n + 1) 2) id 3 0 = some 2 := by decide
example : Dcg.Model.Loops.independentExit ("f.py", "g", "while", "n != len(self.results)", ["countUnchanged"]) = false := by decide
example : Dcg.Model.Loops.independentExit ("f.py", "g", "while", "True", ["other:x", "iterationLimit"]) = true := by decide

/-- **Template text is lexically closed around every interpolation site** (proved in
`Dcg/Props/C10.lean` by the kernel over the site table regenerated from the Jinja sources on this
run): every site stands in exactly one lexical state that its value class may occupy, schema text
reaches a docstring only through `escape_docstring`, `#`-comment sites are fed line by line from
`str.splitlines()`, and every template ends in code state (or in a comment closed by the newline
that joins models). A template edit that moves a site into another lexical context breaks this
obligation. -/
theorem template_sites_lexically_safe :
    (Dcg.Gen.Templates.sites.all (fun s => match s.states with
      | [st] => Dcg.Model.Sites.allowed (Dcg.Model.Sites.classify s.expr s.filters) st
      | _ => false) = true) ∧
    (Dcg.Gen.Templates.finals.all (fun f => f.2.all (fun st => st == "code" || st == "comment")) = true) ∧
    ((Dcg.Gen.Templates.sites.filter (fun s => Dcg.Model.Sites.classifyExpr s.expr == .commentLine)).all (fun s =>
      Dcg.Gen.Templates.sites.any (fun h => h.template == s.template &&
        Dcg.Model.Sites.reviewedLineLoops.contains h.expr)) = true) :=
  ⟨Dcg.Props.C10.site_safe, Dcg.Props.C10.templates_end_neutral, Dcg.Props.C10.comment_lines_from_splitlines⟩

/-- the docstring around an escaped description is one literal that ends where the template ends it -/
theorem docstring_slot_exact (text pre post rest : List Char)
    (hpre : ∀ c ∈ pre, c = ' ' ∨ c = '\n') (hpost : ∀ c ∈ post, c = ' ') :
    scanLong '"' (pre ++ Dcg.Model.Escape.escDoc 0 text ++ '\n' :: post ++ ['"', '"', '"'] ++ rest) =
      some (pre ++ Dcg.Model.Escape.normNL (text ++ ['\n']) ++ post, rest) :=
  Dcg.Props.C10.docstring_literal_exact text pre post rest hpre hpost


/-! ### Template-level well-formedness: the class templates themselves, for all environments

The 16 Jinja templates are part of the model (`Gen/TemplateAst`, regenerated from the template
sources by jinja2's own parser on every run) and are given meaning by the interpreter
`Model.Template.renderTemplate` (validated against the real templates on every run).  The theorems
below quantify over EVERY render context.  `ValuesOK o` says that every value interpolated during
the rendering `o` — except docstring text, for which nothing is assumed — satisfies the invariant
of its reviewed site class (`Proofs.TemplateBlock.BlockHyp`: identifiers, type hints, repr values,
base lists, decorators are one line — no `\n` — that neither starts with a blank nor is the keyword
`class`, header sites contain no `#`; comment text is one line; the two sites inside the
`indent(4)` filter block of the pydantic config contain no `str.splitlines` boundary at all).
Whether the contexts the generator really builds satisfy it is observed on every end-to-end run at
the render boundary (`vlib/props/render_probe.py`, driver `tpl.inv`).  `blockOf text` is the final state of the
block automaton of `Model/TemplateBlock` on the text. -/

section Templates
open Dcg.Model.TemplateSyntax Dcg.Model.Template Dcg.Model.TemplateAbs Dcg.Model.TemplateBlock
open Dcg.Proofs.TemplateAbs Dcg.Proofs.TemplateBlock Dcg.Proofs.TemplateBlockTop Dcg.Proofs.TemplateCheckBlock
open Dcg.Gen.TemplateAst

/-- the templates that always produce a class statement -/
def classTemplates : List String := groupA ++ groupB

theorem classTemplate_check (name : String) (hn : name ∈ classTemplates) (t : List Tpl)
    (ht : templates.lookup name = some t) :
    check blockAuto BSt.init goodClass [] (factExprs t) t = true := by
  have hall : blockCheckAll goodClass classTemplates = true := by
    unfold blockCheckAll classTemplates
    rw [List.all_append]
    exact Bool.and_eq_true_iff.mpr ⟨groupA_ok, groupB_ok⟩
  have := List.all_eq_true.mp hall name hn
  simpa [ht] using this

/-- **Every class has a body** (the defect repaired by f450658, now a theorem about every class
template as it is in the tree): for each of the 8 class templates and EVERY render context, if the
rendering succeeds and the interpolated values satisfy their class invariants, the text contains a
line that starts with `class ` in column 0 and ends in `:` (before an optional `#` comment), and
after it a non-blank line indented by at least 4 blanks; the text does not end on the header line. -/
theorem class_body_nonempty (name : String) (hn : name ∈ classTemplates) (t : List Tpl)
    (ht : templates.lookup name = some t) (ctx : List (String × Val)) (o : Out)
    (hr : renderTemplate ctx t = .ok o) (hv : ValuesOK o) :
    (blockOf o.text).phase = .inBody ∧ (blockOf o.text).hdr = false := by
  have h := block_check_sound goodClass [] _ t (classTemplate_check name hn t ht) ctx o hr (Consistent_nil _) hv
  unfold goodClass good at h
  simp only [Bool.and_eq_true, Bool.not_eq_true', beq_iff_eq] at h
  exact ⟨h.2, h.1.1.2⟩

/-- **The class is one block**: under the same hypotheses no line after the header breaks the
block — every line after the `class` line is blank or starts with at least 4 blanks (docstring
lines included: that is what `indent(4)` is for), and the header line ends in `:`. -/
theorem class_body_lines_indented (name : String) (hn : name ∈ classTemplates) (t : List Tpl)
    (ht : templates.lookup name = some t) (ctx : List (String × Val)) (o : Out)
    (hr : renderTemplate ctx t = .ok o) (hv : ValuesOK o) :
    (blockOf o.text).bad = false := by
  have h := block_check_sound goodClass [] _ t (classTemplate_check name hn t ht) ctx o hr (Consistent_nil _) hv
  unfold goodClass good at h
  simp only [Bool.and_eq_true, Bool.not_eq_true', beq_iff_eq] at h
  exact h.1.1.1

/-- `pydantic_v2/BaseModel.jinja2` renders either `Name = Base` or a class; if it is a class, the
class is well formed (same reading as above). -/
theorem v2_basemodel_alias_or_class (t : List Tpl)
    (ht : templates.lookup "pydantic_v2/BaseModel.jinja2" = some t) (ctx : List (String × Val)) (o : Out)
    (hr : renderTemplate ctx t = .ok o) (hv : ValuesOK o) :
    good (blockOf o.text) = true := by
  have hc : check blockAuto BSt.init good [] (factExprs t) t = true := by
    have := List.all_eq_true.mp groupC_ok "pydantic_v2/BaseModel.jinja2" (by simp [groupC])
    simpa [ht] using this
  exact block_check_sound good [] _ t hc ctx o hr (Consistent_nil _) hv

/-- `pydantic/Config.jinja2` (`class Config:` nested into pydantic v1 models): the class has a body
in every context in which `config.dict(exclude_unset=True).items()` is non-empty — an invariant of
`model/pydantic/base_model.py` (a Config object is only built from a non-empty parameter dict), not
of the template; without it the analysis reports the empty class (`config_needs_assumption`). -/
theorem config_class_body_nonempty (t : List Tpl)
    (ht : templates.lookup "pydantic/Config.jinja2" = some t) (ctx : List (String × Val)) (o : Out)
    (hr : renderTemplate ctx t = .ok o) (hv : ValuesOK o)
    (hcfg : ∀ v, eval ⟨ctx, []⟩ configItems = .ok v → truthy v = true) :
    goodClass (blockOf o.text) = true := by
  have hc : check blockAuto BSt.init goodClass [(configItems, true)] [] t = true := by
    have := config_ok
    simpa [ht] using this
  refine block_check_sound goodClass _ [] t hc ctx o hr ?_ hv
  intro e b hm v hev
  have : (e, b) = (configItems, true) := by simpa using hm
  cases this
  exact hcfg v hev

/-- the analysis is not vacuous: on `Enum.jinja2` as it was before the repair it fails, and the
environment it names is the one of the reported defect (no members, no description) -/
theorem enum_before_fix_rejected :
    check blockAuto BSt.init goodClass [] (factExprs Dcg.Proofs.TemplateFixture.enumBeforeFix)
      Dcg.Proofs.TemplateFixture.enumBeforeFix = false ∧
    refute blockAuto BSt.init goodClass [] (factExprs Dcg.Proofs.TemplateFixture.enumBeforeFix)
      Dcg.Proofs.TemplateFixture.enumBeforeFix =
      some [(.name "decorators", false), (.name "description", false), (.name "fields", false)] :=
  ⟨Dcg.Proofs.TemplateFixture.enumBeforeFix_rejected, Dcg.Proofs.TemplateFixture.enumBeforeFix_counterexample⟩

/-- **Names discharge the value hypotheses.** What C07 proves of the resolvers — a member or class
name is a Python identifier that is not a keyword (`Model/TemplateInv.identValueB`) — is enough for
the hypotheses that the template theorems of C01 (`BlockHyp`, above) and C10 (`LexHyp`:
`template_lexically_closed`, `sites_in_allowed_states`) make about the value of a one-line code site:
such a value is one line, does not start with a blank, is not `class`, contains no `#`, no quote, no
backslash.  The name sites (`{{ field.name }}`, `{{ class_name }}`, `{{ fields[0].name }}`) are
checked against `identValueB` on every real render context of every end-to-end run (driver
`tpl.inv`): a member that reaches rendering without a name is written as `None` and violates it — the
assumption of this theorem, and with it the link to C07, is then broken for that document. -/
theorem identifier_values_discharge_hypotheses (e : Expr) (v : List Char) (hd : Bool)
    (hk : slotKind e = .word hd) (hv : Dcg.Model.TemplateInv.identValueB v = true) :
    BlockHyp e v ∧ Dcg.Proofs.TemplateLex.LexHyp e v :=
  Dcg.Proofs.TemplateInv.identValue_hyps e v hd hk hv

/-- non-vacuity: `field.name` is such a site, `user_id` such a value; `None`, `class`, the empty
string and `a b` are not -/
example : slotKind (.attr (.name "field") "name") = .word false ∧
    Dcg.Model.TemplateInv.isNameSite (.attr (.name "field") "name") = true ∧
    Dcg.Model.TemplateInv.identValueB "user_id".toList = true := by decide +kernel
example : Dcg.Model.TemplateInv.identValueB "None".toList = false ∧
    Dcg.Model.TemplateInv.identValueB "class".toList = false ∧
    Dcg.Model.TemplateInv.identValueB [] = false ∧
    Dcg.Model.TemplateInv.identValueB "a b".toList = false := by decide +kernel

/-! ### Where a name-less member can come from: the placeholders of `required`

`Model/Placeholder` models `Parser.__override_required_field` (compared with the real pass on random
class graphs on every run): the name-less placeholder that a `required` entry naming no declared
member leaves behind is replaced by a copy of the base-class member or dropped — for every wire name. -/

section Placeholder
open Dcg.Model.Placeholder

/-- **After the pass every member of a class model is an original member that has no wire name or
has a type, or the required copy of the base-class member that the lookup returned for the wire name
of a placeholder** (a member with a wire name — ANY string — and an empty type). -/
theorem override_members (find : List Char → Option Fld) (fs : List Fld) (g : Fld)
    (h : g ∈ overrideFields find fs) :
    (g ∈ fs ∧ (g.orig = none ∨ g.typed = true)) ∨
    (∃ f ∈ fs, ∃ n, f.orig = some n ∧ f.typed = false ∧
      ∃ o, find n = some o ∧ g = { o with required := true }) :=
  Dcg.Proofs.Placeholder.overrideFields_mem h

/-- **No name-less member is left** — in every class model whose name-less members are all
placeholders of `required` entries (a wire name — any string, the empty one included — and an empty
type: what `_parse_object_common_part` appends) and whose base-class members all have names: every
member after the pass has a name, i.e. `{{ field.name }}` receives a name for every member
(`identifier_values_discharge_hypotheses` then needs only C07).  No wire name is excepted: the guard
of the pass is `original_name is None`, so the placeholder of `required: [""]` is resolved or dropped
like every other one (it used to be kept and rendered `None: None` under the guard
`not original_name`; repaired, see known_findings.d/_fixed.json C01-required-empty-name). -/
theorem override_leaves_only_named (find : List Char → Option Fld) (fs : List Fld)
    (hfs : ∀ f ∈ fs, f.name = none → f.orig ≠ none ∧ f.typed = false)
    (hfind : ∀ n o, find n = some o → o.name ≠ none) :
    ∀ g ∈ overrideFields find fs, g.name ≠ none := by
  intro g hg
  rcases override_members find fs g hg with ⟨hm, hp⟩ | ⟨f, _, n, _, _, o, ho, hgo⟩
  · intro hn
    obtain ⟨h1, h2⟩ := hfs g hm hn
    rcases hp with hp | hp
    · exact h1 hp
    · rw [h2] at hp; cases hp
  · rw [hgo]
    exact hfind n o ho

/-- **A placeholder never stays**, whatever its wire name: a name-less member with a wire name and an
empty type is in the result only as the required copy of a base-class member, and it is dropped when
no base class declares the wire name. -/
theorem placeholder_resolved_or_dropped (find : List Char → Option Fld) (f : Fld) (n : List Char)
    (ho : f.orig = some n) (ht : f.typed = false) :
    overrideOne find f = (find n).map (fun o => { o with required := true }) :=
  Dcg.Proofs.Placeholder.overrideOne_placeholder find f n ho ht

/-- what the breadth-first lookup returns carries the wire name that was asked for — for every wire
name, the empty one included -/
theorem lookup_returns_the_wire_name (n : List Char) (k : Nat) (ms : List Mdl) (o : Fld)
    (h : findField n k ms = some o) : o.orig = some n :=
  Dcg.Proofs.Placeholder.findField_orig k ms o h

/-- non-vacuity: a model with a base: `x` is re-declared from the base (marked required), `ghost` is
dropped, the typed member stays; a model WITHOUT bases loses its placeholder too -/
example : overrideModel 8 false (.mk [⟨none, some "x".toList, false, true⟩, ⟨none, some "ghost".toList, false, true⟩,
      ⟨some "y".toList, some "y".toList, true, false⟩]
      [.mk [⟨some "x".toList, some "x".toList, true, false⟩] []]) =
    [⟨some "x".toList, some "x".toList, true, true⟩, ⟨some "y".toList, some "y".toList, true, false⟩] := by decide
example : overrideModel 8 false (.mk [⟨none, some "ghost".toList, false, true⟩] []) = [] := by decide
/-- non-vacuity with the EMPTY wire name (`D = allOf [$ref B], required: [""]`, the former finding
C01-required-empty-name): the placeholder is dropped when no base declares a member `""` … -/
example : overrideModel 8 false (.mk [⟨none, some [], false, true⟩]
      [.mk [⟨some "x".toList, some "x".toList, true, false⟩] []]) = [] := by decide
/-- … and re-declared (marked required, under the base member's name `field_`) when one does, also
through a base of the base -/
example : overrideModel 8 false (.mk [⟨none, some [], false, true⟩]
      [.mk [⟨some "x".toList, some "x".toList, true, false⟩] [.mk [⟨some "field_".toList, some [], true, false⟩] []]]) =
    [⟨some "field_".toList, some [], true, true⟩] := by decide
/-- … and both hypotheses of `override_leaves_only_named` hold of that model -/
example : (∀ f ∈ [(⟨none, some [], false, true⟩ : Fld)], f.name = none → f.orig ≠ none ∧ f.typed = false) ∧
    (findField [] 8 [.mk [⟨some "field_".toList, some [], true, false⟩] []]).map (·.name) = some (some "field_".toList) := by
  decide

end Placeholder

/-- non-vacuity of the class theorems: a real rendering of `Enum.jinja2` (no members, a
description) that satisfies the hypotheses; what the block automaton accepts and rejects -/
example : (match renderTemplate [("class_name", .str "E".toList), ("base_class", .str "Enum".toList),
      ("description", .str "a\nb".toList), ("fields", .list [])] t_Enum with
    | .ok o => o.text == "class E(Enum):\n    \"\"\"\n    a\n    b\n    \"\"\"".toList &&
        o.slots.length == 3
    | .error _ => false) = true := by decide +kernel
/-- …and its interpolated values satisfy the hypotheses of the theorems (`ValuesOK`) -/
example : ∃ o, renderTemplate [("class_name", .str "E".toList), ("base_class", .str "Enum".toList),
      ("description", .str "a\nb".toList), ("fields", .list [])] t_Enum = .ok o ∧ ValuesOK o := by
  refine ⟨_, rfl, valuesOKb_sound ?_⟩
  decide +kernel
example : goodClass (blockOf "class E(Enum):\n    \"\"\"\n    a\n    b\n    \"\"\"".toList) = true := by decide
example : goodClass (blockOf "@dataclass\nclass A:  # c\n    pass".toList) = true := by decide
example : good (blockOf "class E(Enum):".toList) = false := by decide
example : good (blockOf "class E(Enum):\n".toList) = false := by decide
example : good (blockOf "class E(Enum):\npass".toList) = false := by decide
example : good (blockOf "class E(Enum)\n    pass".toList) = false := by decide
example : good (blockOf "class E(Enum):\n    a = 1\nb = 2".toList) = false := by decide
example : good (blockOf "E = Base".toList) = true ∧ goodClass (blockOf "E = Base".toList) = false := by decide

end Templates

/-! ### The import block: no `from … import` line without a name -/

section ImportLines
open Dcg.Model.Imports Dcg.Proofs.ImportsDump

/-- **No group of the import multimap is empty, whatever `Parser.parse` did with it.** Every state the
modelled `Imports` object (C02's `Model/Imports`: `append`, `remove`, `remove_referenced_imports` with
their reference counts, `remove()` deleting a group when it takes its last name) reaches from the empty
object has only groups that hold a name.  The REAL object is tied to this on every run: the recorded
history of every `Imports` object of `generate()` goes through `run` and the resulting groups — the empty
ones included — and `dump()` text are compared with the real object's (campaign `imports at dump`).
Reading `imports[from_]` of a deleted group (a `defaultdict` re-creates it, empty) is not an operation of
the model: it shows as a real group the model does not have. -/
theorem imports_no_empty_group (ops : List Op) (s : State) (h : run {} ops = some s) : NoEmptyGroup s :=
  noEmpty_run ops {} s noEmpty_empty h

/-- … and the pruning step of `Parser.parse` (every name that does not occur in the rendered code is
released) keeps it so: a module that uses NO name of a package loses the group, not only its names. -/
theorem pruning_keeps_groups_nonempty (code : Dcg.Model.Types.Str) (s s' : State)
    (h : NoEmptyGroup s) (hp : prune code s = some s') : NoEmptyGroup s' :=
  noEmpty_prune code s s' h hp

/-- **Every line `Imports.dump()` writes carries at least one name** (one entry per name of its group),
given that no group is empty.  `dump s` is by definition the `create_line` of every group, in order. -/
theorem dump_lines_have_names (s : State) (h : NoEmptyGroup s) :
    ∀ p ∈ s.imports, (withAlias s p.1 p.2).length = p.2.length ∧ withAlias s p.1 p.2 ≠ [] := by
  intro p hp
  refine ⟨length_withAlias s p.1 p.2, ?_⟩
  intro he
  have hl := length_withAlias s p.1 p.2
  rw [he] at hl
  exact h p hp (List.length_eq_zero_iff.mp hl.symm)

example : NoEmptyGroup (append1 {} IMPORT_OPTIONAL) ∧ (append1 {} IMPORT_OPTIONAL).imports ≠ [] := by
  refine ⟨noEmpty_append1 _ _ noEmpty_empty, ?_⟩
  decide

/-- The invariant is needed: for a group without names `create_line` writes the dangling
`from <module> import ` (not Python). -/
theorem empty_group_dangles (s : State) (f : Dcg.Model.Types.Str) (hf : f ≠ []) :
    createLine s (some f) [] = sFrom ++ f ++ sImportSp := by
  simp [createLine, hf, withAlias, sortStrs, Dcg.Model.Types.joinSep]

end ImportLines

/-! ### Regex patterns: the text `pattern_literal` writes into `constr(regex=…)` / `constr(pattern=…)` -/

section PatternLiteral
open Dcg.Proofs.PatternLit Dcg.Proofs.Escape

/-- **The pattern literal is ONE token, for every pattern.** The text that
`model/pydantic/types.py pattern_literal` writes (`Proofs/PatternLit.patternLiteral`: `r'…'` when the
pattern has no single quote, no dangling backslash and `pattern.isprintable()`, else `repr()`;
compared character by character with the real function on every run, campaign `patlit.text`),
followed by anything that does not start with a quote (the generator writes `)` or `,`), is read by
the lexer as one complete string literal — raw or cooked — whose value is the pattern, and the
lexer resumes exactly behind it: no pattern can end the literal early, leave it open or run into the
rest of the line. `pr` is `str.isprintable` of one character, a PARAMETER; the only thing the proof
needs from it is `printableOK pr`: LF, CR and NUL — the three characters a raw short literal cannot
hold — are not printable. That hypothesis is necessary (`pattern_literal_needs_printableOK`) and
holds of CPython's table (`cpython_printable_ok`, hence `pattern_literal_one_token_cpython`). -/
theorem pattern_literal_one_token (pr : Char → Bool) (hpr : printableOK pr = true)
    (p rest : List Char) (h1 : rest.head? ≠ some '\'') (h2 : rest.head? ≠ some '"') :
    strToken (patternLiteral pr p ++ rest) = some (p, rest) :=
  strToken_patternLiteral pr hpr p rest h1 h2

/-- **CPython's `str.isprintable` satisfies both side conditions** (decided by the kernel on the
table `Gen/Printable.nonPrintable`, regenerated from the interpreter on every run): none of LF / CR /
NUL is printable (`printableOK`), and none of the ten characters at which `str.splitlines` splits
is (`noBoundaryPrintable`). -/
theorem cpython_printable_ok :
    printableOK cpythonPrintable = true ∧ noBoundaryPrintable cpythonPrintable = true := by
  decide +kernel

/-- `pattern_literal_one_token` for the predicate the code really calls: no hypothesis left, EVERY
pattern. -/
theorem pattern_literal_one_token_cpython (p rest : List Char)
    (h1 : rest.head? ≠ some '\'') (h2 : rest.head? ≠ some '"') :
    strToken (patternLiteral cpythonPrintable p ++ rest) = some (p, rest) :=
  pattern_literal_one_token _ cpython_printable_ok.1 p rest h1 h2

/-- non-vacuity: both quote kinds in one pattern (the shape `^['"].*['"]$`), followed by `)` -/
example : strToken (patternLiteral cpythonPrintable "^['\"].*['\"]$".toList ++ [')']) =
    some ("^['\"].*['\"]$".toList, [')']) :=
  pattern_literal_one_token_cpython _ _ (by decide) (by decide)

/-- non-vacuity, raw branch: backslashes stay single -/
example : patternLiteral cpythonPrintable "^\\d+\"$".toList = "r'^\\d+\"$'".toList := by decide

/-- non-vacuity of the hypothesis for a predicate that is not the table -/
example : printableOK (fun c => 32 ≤ c.toNat) = true := by decide

/-- **The hypothesis on the printability predicate is minimal**: whenever `printableOK pr` fails
there is a pattern (one of LF / CR / NUL alone) whose written literal is NOT one token. -/
theorem pattern_literal_needs_printableOK (pr : Char → Bool) (h : printableOK pr = false) :
    ∃ p, strToken (patternLiteral pr p ++ [')']) ≠ some (p, [')']) :=
  printableOK_necessary pr h

/-- non-vacuity: the predicate "everything is printable" -/
example : printableOK (fun _ => true) = false := by decide

/-- **No line boundary in the written literal** (the repaired finding C01-pattern-line-boundary).
When `pr` calls none of the ten characters printable at which Python's `str.splitlines` splits
(LF VT FF CR FS GS RS, U+0085, U+2028, U+2029 — where isort and black cut a module into lines),
the text `pattern_literal` writes holds none of them: in the raw branch every character of the
pattern is printable, in the `repr()` branch they are escaped. So the literal stays on the line
the template put it on, whatever the pattern. -/
theorem pattern_literal_has_no_line_boundary (pr : Char → Bool)
    (hpr : noBoundaryPrintable pr = true) (p : List Char) :
    ∀ c ∈ patternLiteral pr p, c ∉ lineBoundaries :=
  patternLiteral_no_line_boundary hpr p

/-- the same for CPython's table: no hypothesis left -/
theorem pattern_literal_has_no_line_boundary_cpython (p : List Char) :
    ∀ c ∈ patternLiteral cpythonPrintable p, c ∉ lineBoundaries :=
  pattern_literal_has_no_line_boundary _ cpython_printable_ok.2 p

/-- non-vacuity: the former witness `a<U+0085>b` now goes to `repr()` … -/
example : patternLiteral cpythonPrintable ['a', Char.ofNat 0x85, 'b'] = "'a\\x85b'".toList := by
  decide

/-- … and the former rule (raw unless quote / dangling backslash / ASCII control character: the
predicate "not an ASCII control character") does NOT satisfy the side condition: it wrote U+0085
verbatim. The full-strength statement without the hypothesis is false. -/
theorem former_rule_wrote_line_boundary :
    noBoundaryPrintable (fun c => !(c.toNat < 32 || c.toNat = 127)) = false ∧
    Char.ofNat 0x85 ∈ patternLiteral (fun c => !(c.toNat < 32 || c.toNat = 127))
      ['a', Char.ofNat 0x85, 'b'] ∧ Char.ofNat 0x85 ∈ lineBoundaries := by
  decide

/-- **A raw literal cannot hold its own delimiter** — for EITHER quote `q`, every pattern without a
backslash that contains `q`, every continuation: `r q p q` is not read back as `p`. Whatever
delimiter a rendering of patterns writes, the raw form is only available when that delimiter does
not occur in the pattern. -/
theorem raw_literal_cannot_hold_its_delimiter (q : Char) (p rest : List Char)
    (hq : q ∈ p) (hb : '\\' ∉ p) :
    litRaw q (q :: p ++ [q] ++ rest) ≠ some (p, rest) :=
  raw_literal_with_own_delimiter_inexact q p rest hq hb

/-- non-vacuity: `r"a"b"` -/
example : litRaw '"' ('"' :: "a\"b".toList ++ ['"'] ++ [')']) ≠ some ("a\"b".toList, [')']) :=
  raw_literal_cannot_hold_its_delimiter _ _ _ (by decide) (by decide)

/-- **The delimiter `repr()` would pick does not make a raw literal safe** (the refuted variant
"write the raw literal with `repr(pattern)[0]` as its quote", kept visible): `repr` picks the
single quote for every string that holds both quote kinds and relies on escaping it, which a raw
literal cannot do — for every such pattern without a backslash the raw literal in repr's quote is
NOT read back as the pattern, and no raw short literal in either quote is. -/
theorem raw_in_repr_quote_refuted (p rest : List Char) (h1 : '\'' ∈ p) (h2 : '"' ∈ p)
    (hb : '\\' ∉ p) :
    litRaw (reprQuote p) (reprQuote p :: p ++ [reprQuote p] ++ rest) ≠ some (p, rest) ∧
    ∀ q, q = '\'' ∨ q = '"' → litRaw q (q :: p ++ [q] ++ rest) ≠ some (p, rest) :=
  ⟨both_quotes_no_raw_literal p rest h1 h2 hb _ (reprQuote_cases p),
   both_quotes_no_raw_literal p rest h1 h2 hb⟩

/-- the witness: `^['"].*['"]$` written as `r'^['"].*['"]$'` ends after `^[` -/
example : strToken ("r'^['\"].*['\"]$')".toList) = some ("^[".toList, "\"].*['\"]$')".toList) := by
  simp [strToken, litRaw, scanRaw, unitRaw]

example : ('\'' ∈ "^['\"].*['\"]$".toList) ∧ ('"' ∈ "^['\"].*['\"]$".toList) ∧
    ('\\' ∉ "^['\"].*['\"]$".toList) := by decide

end PatternLiteral

/-! ### Keyword names of `Field(...)` written by Python code -/

/-- **Every extra key that can become a keyword NAME of `Field(...)` goes through the identifier
sanitiser.** The key expressions of `JsonSchemaParser.get_field_extras` (followed through helper
methods of the class; regenerated from the source's AST on every run) are all calls of
`self.get_field_extra_key(…)`, which for field models that write extras as keyword arguments
(pydantic v1) is `ModelResolver.get_valid_field_name_and_alias(key)[0]` — a Python identifier (C07).
A path that returns `key.lstrip("x-")` without the sanitiser breaks this theorem
(`Field(None, display-name=…)` would not parse).  And the sanitiser IS that resolver on every return path of
every function bound to the name under `can_have_extra_keys` (Gen/CodeSites.fieldExtraKeySanitiser, from the
AST; Props/C10 `field_extra_key_sanitiser_resolves`): a path that hands the key back unchanged — e.g. for
`key.isidentifier()`, which holds of every Python keyword — would write `Field(None, not=…, class=…)`. -/
theorem field_extra_keys_sanitised :
    Dcg.Gen.CodeSites.fieldExtraKeySites.all (fun s => s.2.2) = true ∧
    Dcg.Gen.CodeSites.fieldExtraKeySites ≠ [] ∧
    Dcg.Gen.CodeSites.fieldExtraKeySanitiser.all Dcg.Model.CodeSites.sanitiserPathOK = true ∧
    Dcg.Gen.CodeSites.fieldExtraKeySanitiser.any Dcg.Model.CodeSites.sanitiserBindsKeywordCase = true := by decide

end Dcg.Props.C01
