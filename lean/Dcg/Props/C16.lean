import Dcg.Model.Infer
import Dcg.Proofs.Infer
import Dcg.Proofs.InferCompose
import Dcg.Proofs.MemberRename
import Dcg.Proofs.SingularName
import Dcg.Proofs.InferText
/-
C16 — a model inferred from sample data accepts that sample.
Only property theorems live here; helper lemmas are in Dcg/Proofs/Infer.lean.
`Model.Infer.add/infer` transliterate genson's `SchemaNode.add_object` (what `generate()` runs on
raw JSON / YAML / dict / CSV input); `validL` is JSON-Schema validity for the schema shapes inference
produces. Agreement of both with genson / jsonschema is tested on every run (vlib/props/c16.py).
Section "the whole chain" composes this first stage with C03's models of the later stages
(`Sem.Schema.validJ`, `Model.Translate.tr`, `Sem.Pyd.acceptsTy`) through `Model.InferBridge`:
the classes generated from the inferred schema do not reject the sample. Class and member NAMES and
the wire names of `model_dump(by_alias)` are not part of those models (C06/C07): for them the property
rests on the end-to-end oracle of vlib/props/c16.py.
-/
namespace Dcg.Props.C16
open Dcg.Sem.JsonLite Dcg.Model.Infer Dcg.Proofs.Infer

/-- FULL STRENGTH, every JSON value (objects at the root in particular), unbounded depth and width:
the schema inferred from a document accepts that document. -/
theorem infer_valid (v : Json) : validL (infer v) v = true :=
  covers_valid v _ (add_self v .empty)

/-- the case the property names: an object at the root -/
theorem infer_valid_root_object (kvs : List (Key × Json)) : validL (infer (.obj kvs)) (.obj kvs) = true :=
  infer_valid _

/-- non-vacuity and non-triviality: a heterogeneous nested sample is accepted, a document of another
shape is rejected (`validL` is not constantly true) -/
example :
    let v := Json.obj [("a".toList, .arr [.int 1, .flt false, .null, .obj [("".toList, .str [])], .obj []]),
                       ("A".toList, .arr [])]
    validL (infer v) v = true ∧
    validL (infer v) (.obj [("a".toList, .arr [.str []]), ("A".toList, .arr [])]) = false ∧
    validL (infer v) (.obj [("a".toList, .arr [])]) = false := by decide

/-- The list case spelled out: every element of an array is valid against the one merged `items`
schema of the array (same-type scalars merge, differing types become alternatives, objects merge
property-wise with `required` = intersection). -/
theorem array_items_valid (xs : List Json) :
    ∃ items, (infer (.arr xs)).arr = some items ∧ validList items xs = true :=
  ⟨addList .empty xs, rfl, coversList_valid xs _ (addList_self xs .empty)⟩

/-- Monotonicity (the merge lemmas): absorbing a further document never loses an earlier one, and
the result accepts the new one too — inference from several samples accepts each of them. -/
theorem merge_valid_left (v w : Json) : validL (add (infer v) w) v = true :=
  covers_valid v _ (add_mono w _ v (add_self v .empty))

theorem merge_valid_right (v w : Json) : validL (add (infer v) w) w = true :=
  covers_valid w _ (add_self w _)

/-- The property names of the schema inferred from an object are exactly the keys of the object … -/
theorem sample_keys_preserved (kvs : List (Key × Json)) (k : Key) :
    ((infer (.obj kvs)).props.lookup k).isSome = (keys kvs).contains k := by
  simp [infer, Node.empty, add, Node.props, addProps_lookup_isSome]

/-- … and all of them are required. -/
theorem sample_keys_required (kvs : List (Key × Json)) (k : Key) :
    k ∈ (infer (.obj kvs)).req ↔ k ∈ keys kvs := by
  simp [infer, Node.empty, add, Node.req, dedup_mem]

/-- CSV input: the sample the schema is inferred from has exactly the header names as keys, each paired with a string,
for EVERY first row — rectangular, shorter than the header, or longer (surplus cells, a trailing delimiter). -/
theorem csv_sample_is_header (header : List Key) (row : List (List Char)) :
    csvSample header row = .obj (header.map (fun h => (h, Json.str h))) := by
  unfold csvSample dictReaderKeys
  congr 1
  generalize (if header.length < row.length then [none] else []) = tail
  induction header with
  | nil => cases tail <;> rfl
  | cons h hs ih => simp only [List.map_cons, List.cons_append, List.zip_cons_cons, List.filterMap_cons, Option.map_some, ih]

/-- … so the inferred schema does not depend on the row at all, and it accepts the header/row pair of every row that has a
cell for every column (all cells of a CSV file are strings). -/
theorem csv_schema_row_independent (header : List Key) (row row' : List (List Char)) :
    infer (csvSample header row) = infer (csvSample header row') := by
  rw [csv_sample_is_header, csv_sample_is_header]

theorem csv_pair_accepted (header : List Key) (row : List (List Char)) (cells : Key → List Char) :
    validL (infer (csvSample header row)) (.obj (header.map (fun h => (h, Json.str (cells h))))) = true := by
  rw [csv_sample_is_header, valid_flat_str _ header cells (fun h => h)]
  exact infer_valid _

/-- non-vacuity: a row with a trailing delimiter (one surplus, empty cell) -/
example : csvSample ["id".toList, "name".toList] ["1".toList, "Ada".toList, [] ] =
    .obj [("id".toList, .str "id".toList), ("name".toList, .str "name".toList)] := by
  rw [csv_sample_is_header]; rfl

/-- An empty array yields no `items` constraint (`{"type": "array"}`): any later array is accepted. -/
theorem empty_array_unconstrained (ys : List Json) : validL (infer (.arr [])) (.arr ys) = true := by
  have h : ∀ y, validL Node.empty y = true := by
    intro y; cases y <;> simp [validL, Node.isEmpty, Node.empty, Node.null, Node.bool, Node.str, Node.num, Node.arr, Node.hasObj]
  have hl : ∀ ys : List Json, validList Node.empty ys = true := by
    intro ys; induction ys with
    | nil => simp [validList]
    | cons y ys ih => simp [validList, h y, ih]
  simp [infer, add, Node.empty, validL, Node.arr, addList]
  exact Or.inr (hl ys)


/-! ## The whole chain: document → inferred schema → schema parser → pydantic classes

Objects (see Dcg/Model/InferBridge.lean, Dcg/Proofs/InferCompose.lean):
* `w : Sem.Json`              the document, numbers as decimals (C03's value type)
* `toLite w`                  the document as inference sees it (`int` / `float`)
* `toSchemaRoot (infer …)`    `to_schema()` of the inferred node read as a `Sem.Schema` (whole document);
                              `toSchema` in a nested place
* `tr st o .top …`            stage 1 of the generator (C03), `acceptsTy` pydantic's verdict (C03, trusted)
The bridge is tied to the code on every run: `toSchema(Root) (infer v)` against the JSON-Schema text
`generate()` hands to `JsonSchemaParser` for JSON / YAML / dict input, `tr (toSchemaRoot (infer v))`
against the IR the real parser builds from that text, and the model's verdict on the sample against
the exec'd classes (vlib/props/c16_bridge.py). -/

section chain
open Dcg.Sem Dcg.Sem.Pyd Dcg.Model.Translate Dcg.Model.InferBridge Dcg.Model.Constraints
open Dcg.Proofs.InferBridge Dcg.Proofs.InferCompose

/-- (b) EVERY inferred schema lies inside the subset of JSON Schema that C03's theorem covers
(`InSubset`: only the keywords of its type at a scalar, distinct property names, `required` naming
declared properties) — also for documents with repeated keys, heterogeneous arrays, arrays of arrays
of objects: inference keeps one node per property name (`upsert`), takes `required` from the keys,
and writes no bounds. No inferred shape falls outside. -/
theorem inferred_schema_in_subset (v : LJson) :
    (toSchemaRoot (infer v)).inSubset = true ∧ (toSchema (infer v)).inSubset = true :=
  ⟨toSchemaRoot_inSubset _ (infer_wf v), toSchema_inSubset _ (infer_wf v)⟩

/-- (b) the sample is valid under the bridged schema in C03's sense of JSON-Schema validity, with
`fuel n` = 3 per nesting level of the inferred node (alternatives, container, leaf) and with any
larger fuel. Together with `infer_valid`: `validL` and `validJ ∘ toSchema` agree on the sample. -/
theorem sample_valid_bridged (re : Regex) (w : SJson) (f : Nat) (hf : fuel (infer (toLite w)) ≤ f) :
    validJ re f [] (toSchemaRoot (infer (toLite w))) w = true :=
  valid_bridge_root re f _ w (infer_wf _) hf (infer_valid _)

/-- the region the composed statement is claimed for: everything for pydantic-v2 output; for
pydantic-v1 output every document whose inferred schema has no member / item that is exactly
`null | array of null` (rendered `Optional[List[None]]`) -/
def covered : Style → Node → Bool
  | .v2, _ => true
  | .v1, n => v1Safe n

/-- FULL STRENGTH (kept visible): for both output styles, every option vector, every regex oracle,
every amount of fuel and EVERY JSON document `w`: the root class generated from the schema inferred
from `w` does not reject `w`.
Status: provable about the MODELS (`Proofs.InferCompose.sample_accepted_model_root`), but FALSE of
the code for `st = .v1`: pydantic v1 refuses `None` for a member annotated `Optional[List[None]]`
(known finding C16-v1-list-of-none, witness `{"k1": [[null], null]}`, replayed on every run), a
behaviour `Sem.Pyd` (trusted, C03) does not model. Hence the claim about the generator is
`sample_accepted_partial` on `covered`; `v1_excluded_witness` shows where the witness lies. -/
def SampleAccepted : Prop :=
  ∀ (st : Style) (o : Opts) (re : Regex) (g : Nat) (w : SJson),
    acceptsTy st re g [] (tr st o .top (toSchemaRoot (infer (toLite w)))) w ≠ .reject

/-- (c) PARTIAL, unbounded in depth, width and key sets: on `covered` the root class generated from
the inferred schema does not reject the document it was inferred from — both styles, all three
constraint routings, any fuel. Composition of `infer_valid` (stage 1), `valid_bridge`
(validL ⇒ validJ ∘ toSchema), `inferred_schema_in_subset` and C03's `valid_accepted_partial`. -/
theorem sample_accepted_partial (st : Style) (o : Opts) (re : Regex) (g : Nat) (w : SJson)
    (_h : covered st (infer (toLite w)) = true) :
    acceptsTy st re g [] (tr st o .top (toSchemaRoot (infer (toLite w)))) w ≠ .reject :=
  sample_accepted_model_root st o re g w

/-- FULL STRENGTH for pydantic-v2 output: every JSON document. -/
theorem sample_accepted_v2 (o : Opts) (re : Regex) (g : Nat) (w : SJson) :
    acceptsTy .v2 re g [] (tr .v2 o .top (toSchemaRoot (infer (toLite w)))) w ≠ .reject :=
  sample_accepted_partial .v2 o re g w rfl

/-- the same starting from a document as inference sees it (`JsonLite`): `toJson v` is a document
that inference reads as `v` (`toLite (toJson v) = v`) -/
theorem sample_accepted (st : Style) (o : Opts) (re : Regex) (g : Nat) (v : LJson)
    (h : covered st (infer v) = true) :
    acceptsTy st re g [] (tr st o .top (toSchemaRoot (infer v))) (toJson v) ≠ .reject := by
  have := sample_accepted_partial st o re g (toJson v) (by rw [toLite_toJson]; exact h)
  rwa [toLite_toJson] at this

/-- … and in every nested place (`ctx`): a member, an array item, a union alternative -/
theorem sample_accepted_nested (st : Style) (o : Opts) (re : Regex) (g : Nat) (ctx : Ctx) (w : SJson)
    (_h : covered st (infer (toLite w)) = true) :
    acceptsTy st re g [] (tr st o ctx (toSchema (infer (toLite w)))) w ≠ .reject :=
  sample_accepted_model st o re g ctx w

/-- the document of the corpus: heterogeneous array (numbers of either kind, null, objects with
different key sets, an empty array), empty containers, nested arrays, a float with integral value -/
def demoDoc : SJson :=
  .obj [("a".toList, .arr [.num ⟨1, 0⟩, .num ⟨25, 1⟩, .null, .obj [("k".toList, .num ⟨1, 0⟩)],
                          .obj [("k".toList, .str "s".toList), ("j".toList, .arr [])]]),
        ("b".toList, .arr []), ("c".toList, .obj []),
        ("d".toList, .arr [.arr [.num ⟨1, 0⟩, .num ⟨2, 0⟩], .arr [.num ⟨3, 0⟩]]),
        ("e".toList, .null), ("f".toList, .num ⟨10, 1⟩)]

/-- non-vacuity: the hypotheses hold for a non-trivial document, the conclusion is the strong one
(`accept`) for both styles, and the classes do reject a document of another shape -/
example : covered .v1 (infer (toLite demoDoc)) = true ∧
    validJ (fun _ _ => true) (fuel (infer (toLite demoDoc))) [] (toSchemaRoot (infer (toLite demoDoc))) demoDoc = true ∧
    acceptsTy .v1 (fun _ _ => true) 20 [] (tr .v1 {} .top (toSchemaRoot (infer (toLite demoDoc)))) demoDoc = .accept ∧
    acceptsTy .v2 (fun _ _ => true) 20 [] (tr .v2 { fieldConstraints := true } .top (toSchemaRoot (infer (toLite demoDoc)))) demoDoc = .accept ∧
    acceptsTy .v2 (fun _ _ => true) 20 [] (tr .v2 {} .top (toSchemaRoot (infer (toLite demoDoc))))
      (.obj [("a".toList, .arr [.arr []])]) = .reject := by
  decide +kernel

/-- the witness of known finding C16-v1-list-of-none -/
def listOfNoneDoc : SJson := .obj [("k1".toList, .arr [.arr [.null], .null])]

/-- The refuting witness of the full statement for pydantic-v1 output lies in the excluded region, and
only there does the model part company with the code: `Sem.Pyd` accepts the document (the IR is
`List[Union[List[None], None]]`), the exec'd pydantic-v1 class rejects it (replayed by
vlib/props/c16.py, `known_findings`). The other candidate, C16-v1-union-coercion, is no refutation
of acceptance: model and code both accept (the finding is about the dumped keys). -/
theorem v1_excluded_witness :
    covered .v1 (infer (toLite listOfNoneDoc)) = false ∧ covered .v2 (infer (toLite listOfNoneDoc)) = true ∧
    acceptsTy .v1 (fun _ _ => true) 20 [] (tr .v1 {} .top (toSchemaRoot (infer (toLite listOfNoneDoc)))) listOfNoneDoc
      = .accept := by
  decide +kernel

end chain

/-! ### member names that are spelled like the class of their own type (`Parser.__change_field_name`)

A key nested under itself (`{"Error": {"Error": {…}}}`), or any capitalised key whose value is an object, makes a
member whose name IS the name of the class inferred for its value. With a default (the member is optional:
absent from a sibling array element) the class attribute hides the class inside the class namespace and pydantic
v2 evaluates the annotation to `Optional[None]`: the sample is rejected. The pass modelled by
`Model.MemberRename` repairs exactly that. These theorems are about ANY valid-name function (`cfg.vn`),
ANY member name and ANY finite set of class names. Tie to the code: campaign `member_rename` of
vlib/props/c16_names.py (the real pass on real parser results, member lists with repeated names). -/
section memberRename
open Dcg.Model.Resolver Dcg.Model.MemberRename Dcg.Proofs.MemberRename Dcg.Proofs.Resolver

/-- The per-member loop always ends (`|class names of the type| + 1` evaluations of its condition). -/
theorem member_rename_total (cfg : Cfg) (m : Member) : (renameOne cfg m).isSome = true := by
  rw [renameOne_eq]
  cases h : uniqueName cfg (State.init m.avoid) (cfg.vn m.name) false with
  | none => exact absurd h (uniqueName_ne_none _ _ _ _)
  | some _ => rfl

/-- FULL STRENGTH: after the pass no member is spelled like a class its own type refers to — whatever the
member was called, however many classes the type names (unions), whatever names the candidates `K_1, K_2, …`
already collide with. -/
theorem member_rename_avoids (cfg : Cfg) (m : Member) (u : Str) (h : renameOne cfg m = some u) :
    u ∉ m.avoid := by
  rw [renameOne_eq] at h
  exact (uniqueName_not_taken h).2

/-- No needless rename: a member whose (valid) name is not a class name of its own type keeps it — the wire
name stays the member name, no alias is written. -/
theorem member_rename_keeps_free_name (cfg : Cfg) (m : Member) (h : cfg.vn m.name ∉ m.avoid) :
    renameOne cfg m = some (cfg.vn m.name) := by
  rw [renameOne_eq]
  unfold uniqueName
  rw [taken_init]
  have hc : m.avoid.contains (cfg.vn m.name) = false := by
    simpa using h
  simp only [goU, cand, hc, Bool.false_eq_true, if_false]

/-- The new name is the FIRST free one of `K, K_1, K_2, …`: every earlier candidate is a class name of the
member's type. -/
theorem member_rename_first_free (cfg : Cfg) (m : Member) (u : Str) (h : renameOne cfg m = some u) :
    ∃ k, u = cand cfg.sfx ['_'] (cfg.vn m.name) k ∧ ∀ i, i < k → cand cfg.sfx ['_'] (cfg.vn m.name) i ∈ m.avoid := by
  rw [renameOne_eq] at h
  have := goU_first h
  rw [taken_init] at this
  simpa using this

/-- The outcome for a member does not depend on the members processed before it (nor after it): whatever
`pre` and `post` are, the member at position `|pre|` gets what it gets alone. The real loop is compared with
`pass` on member lists in which the same name occurs several times in a row, with and without a clash. -/
theorem member_rename_history_independent (cfg : Cfg) (pre post : List Member) (m : Member) :
    (pass cfg (pre ++ m :: post))[pre.length]? = some (renameOne cfg m) := by
  simp [pass]

/-- non-vacuity: the nested-key sample. Class `Error` (outer object) has the member `Error` of type `Error1`
(kept), the array-item class has the member `Error` of type `Error` (renamed `Error_1`, alias `Error`); a member
of a union type avoids every class of the union, and a taken `Error_1` gives `Error_2`. -/
example :
    pass dflt [⟨"Error".toList, ["Error1".toList]⟩, ⟨"Error".toList, ["Error".toList]⟩,
               ⟨"Error".toList, ["Item".toList, "Error".toList, "Error_1".toList]⟩, ⟨"id".toList, []⟩]
      = [some "Error".toList, some "Error_1".toList, some "Error_2".toList, some "id".toList] ∧
    aliasOf "Error".toList (some "Error_1".toList) = some "Error".toList ∧ aliasOf "id".toList (some "id".toList) = none := by
  decide +kernel

/-- REFUTATION of the other design (one registry for the whole loop, only `exclude_names` fresh per member —
a per-member resolver derived by a shallow copy): the entry filed under the scratch path by the previous member
answers for the next member of the same name, and the clash stays: on the nested-key sample the second member
comes out as `Error`, a class of its own type. History independence above is what excludes it. -/
theorem shared_registry_refuted :
    passShared dflt (State.init []) [⟨"Error".toList, ["Error1".toList]⟩, ⟨"Error".toList, ["Error".toList]⟩]
      = [some "Error".toList, some "Error".toList] ∧
    pass dflt [⟨"Error".toList, ["Error1".toList]⟩, ⟨"Error".toList, ["Error".toList]⟩]
      = [some "Error".toList, some "Error_1".toList] := by
  decide +kernel

end memberRename

/-! ### names of array-item classes: singularised after sanitising, re-sanitised by the per-module pass (C16-g)

`Model.SingularName`: stage 1 `firstName` (class-name form, then inflect's singular — unchecked), stage 2 `repass` (the first loop of
`Parser.__replace_duplicate_name_in_module` for one class on the fresh scoped registry). Tie to the code: campaign `naming of array-item
classes` (vlib/props/c16_singular.py) — stage 1 against `ModelResolver.get_class_name(singular_name=True)`, the second stage in Lean
(`res.modpass`) against the real pass on real DataModel objects, on the computed keyword-plural pool. -/
section singularName
open Dcg.Model.Resolver Dcg.Model.MemberRename Dcg.Model.SingularName Dcg.Proofs.Resolver Dcg.Proofs.MemberRename
  Dcg.Proofs.SingularName Dcg.Gen.ResolverTables

/-- The per-module pass RE-SANITISES: whatever the first stage left as the name of an item class (`first`: empty, a keyword, anything), the name it
ends with is one of the candidates `N, NModel, NModel1, …` built from `N = class_name_generator(first)` — never from `first` itself — for ANY name functions,
imported names and first name. (The seeded fast path returns `first` unchanged: `fast_path_refuted`.) -/
theorem item_class_resanitised (cfg : Cfg) (imported : List Str) (path first u : Str)
    (h : repass cfg imported path first = some u) :
    ∃ k, u = (dotSplit (modCfg cfg) first).1 ++ cand moduleDupSuffix [] (cfg.cn (dotSplit (modCfg cfg) first).2) k := by
  rw [repass_eq] at h
  cases hu : uniqueName (modCfg cfg) (State.init imported) (cfg.cn (dotSplit (modCfg cfg) first).2) true with
  | none => simp [hu] at h
  | some w =>
    simp [hu] at h
    unfold uniqueName at hu
    obtain ⟨m, hm, _⟩ := goU_first hu
    refine ⟨m, ?_⟩
    rw [← h, hm]
    simp [modCfg]

/-- the key `s`: class-name form `S`, inflect's singular is the empty string, the pass ends with `Field` -/
theorem empty_singular_repaired : finalName (defaultCfg [("S".toList, "Item".toList, [])] [] "Item".toList) [] "p".toList "s".toList = some "Field".toList := by decide +kernel

/-- … and it is not a name the module imports -/
theorem item_class_not_imported (cfg : Cfg) (imported : List Str) (path first u : Str)
    (hpre : (dotSplit (modCfg cfg) first).1 = []) (h : repass cfg imported path first = some u) : u ∉ imported := by
  rw [repass_eq, hpre] at h
  cases hu : uniqueName (modCfg cfg) (State.init imported) (cfg.cn (dotSplit (modCfg cfg) first).2) true with
  | none => simp [hu] at h
  | some w =>
    simp [hu] at h
    unfold uniqueName at hu
    have := goU_fresh hu
    rw [taken_init] at this
    exact h ▸ this

/-- Hence the final name of an item class that is alone with its first name has every property `ok` that class-name forms have and that the duplicate
suffixes keep (for `ok` = non-keyword identifier: `classForm_usable` is the first hypothesis for the default generator; the second is about appending `Model`
and digits) — whatever inflect answered in between. NOT claimed for two classes with the same keyword singular: `dup_singular_keyword_witness`. -/
theorem item_class_name_ok (ok : Str → Prop) (cfg : Cfg) (hcn : ∀ n, ok (cfg.cn n))
    (hcand : ∀ n k, ok n → ok (cand moduleDupSuffix [] n k))
    (imported : List Str) (path first u : Str)
    (hpre : (dotSplit (modCfg cfg) first).1 = []) (h : repass cfg imported path first = some u) : ok u := by
  obtain ⟨k, hk⟩ := item_class_resanitised cfg imported path first u h
  rw [hpre] at hk
  rw [hk]
  exact hcand _ _ (hcn _)

/-- the default `class_name_generator` only ever answers with a non-keyword identifier (its retry loop ends on nothing else) -/
theorem classForm_usable (n u : Str) (h : classForm? n = some u) : usable u = true := by
  unfold classForm? validName? at h
  split at h
  · exact retryLoop_usable _ _ _ _ _ _ h
  · cases h

/-- the default configuration, no singular table (stage 2 never singularises) -/
abbrev c0 : Cfg := defaultCfg [] [] []

/-- the four unusable singular forms there are for the default generator on ASCII keys (``, `None`, `True`, `False`; campaign `naming of array-item
classes` computes them from inflect and keyword.kwlist): what the pass makes of them -/
theorem unusable_singulars_repaired :
    (["".toList, "None".toList, "True".toList, "False".toList].map (fun f => repass c0 ["BaseModel".toList] "p".toList f))
      = [some "Field".toList, some "None_1".toList, some "True_1".toList, some "False_1".toList] := by
  decide +kernel

/-- REFUTATION of the other design (a name not yet taken in the module is accepted as it is): the keyword and the empty name go through,
`class None(BaseModel):` / `class (BaseModel):` are emitted -/
theorem fast_path_refuted :
    fastPass c0 (State.init []) ["BaseModel".toList] [("p".toList, "None".toList), ("q".toList, [])]
      = [some "None".toList, some []] ∧ usable "None".toList = false ∧ usable [] = false := by
  decide +kernel

/-- the recorded defect C16-dup-singular-keyword in the model (C06's `replaceDuplicateNameInModule`, tied to the code on these inputs in every run): two item
classes whose singular is the same keyword are `None`, `None1` after stage 1, the second remembers `None` as its first desired name; the first loop repairs
`None` → `None_1`, the second loop hands the free name `None` back to the other class. The theorems above are about ONE class per first name. -/
theorem dup_singular_keyword_witness :
    replaceDuplicateNameInModule c0 [] [⟨"p".toList, "None".toList, []⟩, ⟨"q".toList, "None1".toList, "None".toList⟩]
      = some ["None_1".toList, "None".toList] := by
  decide +kernel

end singularName

/-! ## Type lists with `null` inside `anyOf` (seeded C16-h and its family)

genson folds `null` and every keyword-less strategy of a value into ONE member `{"type": [..., "null"]}`
and puts the containers with keywords beside it in an `anyOf`. `Model.InferText` keeps that text as
written (`toText`) and transliterates what the parser does with it (`trT`: `get_data_type` on a type
list sets `is_optional` for the `null` entry; `parse_combined_schema` keeps the member's data type, flag
included, as a nested union). Both are compared with the code WITHOUT flattening on every run
(vlib/props/c16_hetero.py, campaigns `text.schema` and `text.tr`). -/
section typeLists
open Dcg.Sem Dcg.Sem.Pyd Dcg.Model.Translate Dcg.Model.InferBridge Dcg.Model.InferText Dcg.Model.Constraints
open Dcg.Proofs.InferText

/-- `get_data_type` on `{"type": [t1, …, "null", …]}` (any list of type names, any length ≥ 1): the data type
accepts `None` — for both styles, every regex oracle and every positive fuel. -/
theorem typelist_null_accepted (st : Style) (re : Regex) (g : Nat) (ts : List TName) (h : ts.contains .null = true) :
    acceptsTy st re (g + 1) [] (typesTy ts) .null = .accept :=
  typesTy_null st re g ts h

example : [TName.integer, .null, .string].contains .null = true ∧
    acceptsTy .v2 (fun _ _ => true) 3 [] (typesTy [.integer, .null, .string]) (.str ['a']) = .accept ∧
    acceptsTy .v2 (fun _ _ => true) 3 [] (typesTy [.integer, .string]) .null = .reject := by decide +kernel

/-- FULL STRENGTH for `null`, every inferred node (unbounded: any combination of scalar kinds, an array with or
without items, an object with or without members beside it — i.e. wherever the type list stands, alone or as the
first member of an `anyOf`): a value position in which inference has seen a `null` gets a type that accepts
`None`. The `null` of a heterogeneous value is carried by the `Optional` of the type-list member and survives
`parse_combined_schema`. -/
theorem text_null_accepted (st : Style) (re : Regex) (g : Nat) (n : Node) (h : n.null = true) :
    acceptsTy st re (g + 2) [] (trT st (toText n)) .null = .accept := by
  cases n with
  | mk nu bo s nm ar ho ps rq =>
    simp only [Node.null] at h
    subst h
    rw [toText]
    exact joinText_null st re g _ _ (typeNames_null _ _ _ _ _)

/-- the items node of `[null, 1, "a", {"k": 1}]`: null + two scalar kinds + a container with keywords -/
def heteroItems : Node :=
  addList .empty [.null, .int 1, .str ['a'], .obj [(['k'], .int 1)]]

/-- … and a whole document holding it twice: as a heterogeneous array and as a member that varies across the
objects of an array -/
def heteroDoc : SJson :=
  .obj [(['v'], .arr [.null, .num ⟨1, 0⟩, .str ['a'], .obj [(['k'], .num ⟨1, 0⟩)]]),
        (['r'], .arr [.obj [(['m'], .bool true)], .obj [(['m'], .null)], .obj [(['m'], .num ⟨25, 1⟩)],
                      .obj [(['m'], .arr [.num ⟨1, 0⟩])]])]

/-- non-vacuity of `text_null_accepted` and the sample-acceptance statement at text resolution on the demo
document (both styles): the root class built from the text accepts the document; another shape is rejected -/
example : heteroItems.null = true ∧
    acceptsTy .v2 (fun _ _ => true) 20 [] (trTRoot .v2 (infer (toLite heteroDoc))) heteroDoc = .accept ∧
    acceptsTy .v1 (fun _ _ => true) 20 [] (trTRoot .v1 (infer (toLite heteroDoc))) heteroDoc = .accept ∧
    acceptsTy .v2 (fun _ _ => true) 20 [] (trTRoot .v2 (infer (toLite heteroDoc))) (.obj [(['v'], .arr [.arr []])]) = .reject := by
  decide +kernel

/-- The OTHER design refuted (what seeded C16-h does): when `parse_combined_schema` replaces a member that is itself
a plain union by that member's alternatives, the member's data type — and the `is_optional` flag that was the only
trace of `null` — is gone: for the items of `[null, 1, "a", {"k": 1}]` the rebuilt union `Union[int, str, K]`
rejects `None`, while the parser's nesting `Union[Optional[Union[int, str]], K]` accepts it, and so does the
variant of the other design that hands the flag on as an alternative `None`. -/
theorem dissolved_member_refuted :
    acceptsTy .v2 (fun _ _ => true) 20 [] (trT .v2 (toText heteroItems)) .null = .accept ∧
    acceptsTy .v2 (fun _ _ => true) 20 [] (dissolve (trT .v2 (toText heteroItems))) .null = .reject ∧
    acceptsTy .v1 (fun _ _ => true) 20 [] (dissolve (trT .v1 (toText heteroItems))) .null = .reject ∧
    acceptsTy .v2 (fun _ _ => true) 20 [] (dissolveKeeping (trT .v2 (toText heteroItems))) .null = .accept ∧
    acceptsTy .v2 (fun _ _ => true) 20 [] (dissolve (trT .v2 (toText heteroItems))) (.str ['a']) = .accept := by
  decide +kernel

end typeLists

end Dcg.Props.C16
