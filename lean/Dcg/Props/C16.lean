import Dcg.Model.Infer
import Dcg.Proofs.Infer
/-
C16 — a model inferred from sample data accepts that sample.
Only property theorems live here; helper lemmas are in Dcg/Proofs/Infer.lean.
`Model.Infer.add/infer` transliterate genson's `SchemaNode.add_object` (what `generate()` runs on
raw JSON / YAML / dict / CSV input); `validL` is JSON-Schema validity for the schema shapes inference
produces. Agreement of both with genson / jsonschema is tested on every run (vlib/props/c16.py).
What is proved is the first stage of the chain (the inferred schema accepts the sample); the later
stages (schema → model → pydantic validation, wire names) are covered by the end-to-end oracle.
-/
namespace Dcg.Props.C16
open Dcg.Sem.JsonLite Dcg.Model.Infer Dcg.Proofs.Infer

/-- FULL STRENGTH, every JSON value (objects at the root in particular), unbounded depth and width:
the schema inferred from a document accepts that document. -/
theorem infer_valid (v : Json) : validL (infer v) v = true :=
  covers_valid v _ (add_self v .empty)

/-- the case the property names: an object at the root -/
theorem infer_valid_root_object (kvs : List (Key × Json)) : validL (infer (.obj kvs)) (.obj kvs) = true :=
  infer_valid _

/-- non-vacuity and non-triviality: a heterogeneous nested sample is accepted, a document of another
shape is rejected (`validL` is not constantly true) -/
example :
    let v := Json.obj [("a".toList, .arr [.int 1, .flt false, .null, .obj [("".toList, .str [])], .obj []]),
                       ("A".toList, .arr [])]
    validL (infer v) v = true ∧
    validL (infer v) (.obj [("a".toList, .arr [.str []]), ("A".toList, .arr [])]) = false ∧
    validL (infer v) (.obj [("a".toList, .arr [])]) = false := by decide

/-- The list case spelled out: every element of an array is valid against the one merged `items`
schema of the array (same-type scalars merge, differing types become alternatives, objects merge
property-wise with `required` = intersection). -/
theorem array_items_valid (xs : List Json) :
    ∃ items, (infer (.arr xs)).arr = some items ∧ validList items xs = true :=
  ⟨addList .empty xs, rfl, coversList_valid xs _ (addList_self xs .empty)⟩

/-- Monotonicity (the merge lemmas): absorbing a further document never loses an earlier one, and
the result accepts the new one too — inference from several samples accepts each of them. -/
theorem merge_valid_left (v w : Json) : validL (add (infer v) w) v = true :=
  covers_valid v _ (add_mono w _ v (add_self v .empty))

theorem merge_valid_right (v w : Json) : validL (add (infer v) w) w = true :=
  covers_valid w _ (add_self w _)

/-- The property names of the schema inferred from an object are exactly the keys of the object … -/
theorem sample_keys_preserved (kvs : List (Key × Json)) (k : Key) :
    ((infer (.obj kvs)).props.lookup k).isSome = (keys kvs).contains k := by
  simp [infer, Node.empty, add, Node.props, addProps_lookup_isSome]

/-- … and all of them are required. -/
theorem sample_keys_required (kvs : List (Key × Json)) (k : Key) :
    k ∈ (infer (.obj kvs)).req ↔ k ∈ keys kvs := by
  simp [infer, Node.empty, add, Node.req, dedup_mem]

/-- An empty array yields no `items` constraint (`{"type": "array"}`): any later array is accepted. -/
theorem empty_array_unconstrained (ys : List Json) : validL (infer (.arr [])) (.arr ys) = true := by
  have h : ∀ y, validL Node.empty y = true := by
    intro y; cases y <;> simp [validL, Node.isEmpty, Node.empty, Node.null, Node.bool, Node.str, Node.num, Node.arr, Node.hasObj]
  have hl : ∀ ys : List Json, validList Node.empty ys = true := by
    intro ys; induction ys with
    | nil => simp [validList]
    | cons y ys ih => simp [validList, h y, ih]
  simp [infer, add, Node.empty, validL, Node.arr, addList]
  exact Or.inr (hl ys)

end Dcg.Props.C16
