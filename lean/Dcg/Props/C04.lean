import Dcg.Model.Constraints
import Dcg.Gen.Constraints
import Dcg.Proofs.Sem
import Dcg.Props.C03
import Dcg.Model.Siblings
import Dcg.Proofs.TypesCall
/-
C04 — constraints stated in the schema are enforced by the generated model.
Part 1 (this file): the keyword tables. The statements quantify over the tables regenerated from
/repo on every run, composed with the authored statement of pydantic's reporting (`reported`).
-/
namespace Dcg.Props.C04
open Dcg.Model.Constraints Dcg.Gen.Constraints

/-! ### Tables -/

/-- `kwargs_schema_to_model` sends different schema keywords to different pydantic keywords, in
both styles: no two constraints can collapse into one `con*()` argument. -/
theorem kwargsMap_injective :
    ∀ st ∈ allStyles, ((kwargsMap st).map (·.2)).Nodup ∧ ((kwargsMap st).map (·.1)).Nodup := by
  decide +kernel

/-- Every supported constraint keyword is one the parser recognises as a constraint
(`__constraint_fields__`), is renamed by `kwargs_schema_to_model`, passes the filter set of its kind
of value (arrays excepted: they have no constrained type), and has an attribute in the `Constraints`
class of both styles. The only constraint field outside the supported list is `uniqueItems`. -/
theorem kwargsMap_total_on_constraintFields :
    (∀ kw ∈ allSupported, kw ∈ constraintFields) ∧
    (∀ st ∈ allStyles, ∀ kw ∈ allSupported,
        ((kwargsMap st).lookup kw).isSome ∧ ((aliasMap st).lookup kw).isSome) ∧
    (∀ fam ∈ [Fam.int, Fam.num, Fam.str], ∀ kw ∈ supported fam, kw ∈ famFilter fam) ∧
    (∀ st ∈ allStyles, ∀ kw ∈ allSupported, ∀ a, (aliasMap st).lookup kw = some a → a ∈ attrs st) ∧
    constraintFields.filter (fun k => !allSupported.contains k) = ["uniqueItems"] := by
  decide +kernel

/-- FULL STRENGTH (keywords). For every supported keyword, in every routing (constrained type,
`Field()`, `Annotated[…, Field()]`) and both pydantic styles, the keyword that pydantic reports
back in its JSON Schema is the schema keyword we started from. -/
theorem keyword_roundtrip :
    ∀ st ∈ allStyles, ∀ r ∈ allRoutings, ∀ fam ∈ allFams, ∀ kw ∈ supported fam,
      roundTrip st r fam kw = some kw := by
  decide +kernel

/-- the executable refuter agrees: no broken keyword -/
theorem keyword_roundtrip_refuter : findBrokenKeyword = none := by decide +kernel

/-- Routing does not matter for what is reported: `--field-constraints` / `--use-annotated` report
the same keyword as constrained types (used again by C14). -/
theorem routing_irrelevant :
    ∀ st ∈ allStyles, ∀ r ∈ allRoutings, ∀ fam ∈ allFams, ∀ kw ∈ supported fam,
      roundTrip st r fam kw = roundTrip st .conType fam kw := by
  decide +kernel

/-- non-vacuity: the v2 item-count rename really is exercised -/
example : routeKw .v2 .conType .arr "minItems" = some "min_length" ∧
    routeKw .v1 .field .arr "minItems" = some "min_items" ∧
    routeKw .v1 .conType .str "pattern" = some "regex" := by decide +kernel

/-! ### Keywords at nested places

`reportBounds st ty c` / `reportItems st c` (Dcg/Model/Report.lean): the keywords pydantic reports — through
the authored table `reported` — for the constraints `c`; `placeCons t`: the constraints found at a place of
the IR (arguments of the constrained type, of the root models around it); `itemTy` / `valTy` / `altTys`:
the place of the items of a list, of the values of a dict, of the alternatives of a union. -/

open Dcg.Sem Dcg.Model.Translate Dcg.Model.Report Dcg.Proofs.Sem in
/-- ARRAY ITEMS, at any depth of the enclosing place `ctx` (document, definition, member type, item, union
alternative): a scalar item schema `{type, bounds}` is reported with exactly its keywords and values — for both
styles and every routing. (`scalarOK`: only the keywords of the type, integer bounds written as integers —
excludes D10.) No further hypothesis: an item is never in the D11 region. -/
theorem keyword_roundtrip_array_item (st : Style) (o : Opts) (ctx : Ctx) (ty : STy) (n : Bool) (b : Bounds)
    (mn mx : Option Nat) (hok : scalarOK ty b = true) :
    reportBounds st ty (placeCons (itemTy (tr st o ctx (.array (.scalar ty n b) mn mx)))) = b := by
  have hit : itemTy (tr st o ctx (.array (.scalar ty n b) mn mx)) =
      tr st o (.item (mn.isSome || mx.isSome)) (.scalar ty n b) := by
    cases ctx <;> simp only [tr] <;> try split
    all_goals simp only [itemTy]
  rw [hit]
  exact scalar_place_report st o (C03.tableOK st) _ ty n b hok (by simp [strictSafe])

open Dcg.Sem Dcg.Model.Translate Dcg.Model.Report Dcg.Proofs.Sem in
/-- UNION ALTERNATIVES: a scalar alternative of anyOf / oneOf is reported with its keywords and values. -/
theorem keyword_roundtrip_union_alternative (st : Style) (o : Opts) (ctx : Ctx) (ty : STy) (n : Bool)
    (b : Bounds) (before after : List Schema) (hok : scalarOK ty b = true) :
    ∃ t ∈ altTys (tr st o ctx (.anyOf (before ++ .scalar ty n b :: after))),
      t = tr st o (.item false) (.scalar ty n b) ∧ reportBounds st ty (placeCons t) = b := by
  refine ⟨tr st o (.item false) (.scalar ty n b), ?_, rfl,
    scalar_place_report st o (C03.tableOK st) _ ty n b hok (by simp [strictSafe])⟩
  have hmem : ∀ L : List Schema, altTys (tr st o ctx (.anyOf L)) = L.map (altTy st o) := by
    intro L; simp only [tr, altTys, trAlts_eq_map]
  rw [hmem]
  refine List.mem_map.mpr ⟨.scalar ty n b, by simp, ?_⟩
  simp only [altTy, Schema.isDisc, Bool.false_eq_true, if_false]

/-! ### Validation keywords written NEXT TO `anyOf` / `oneOf`

`{"anyOf": [A, B, …], "maxLength": 10}`: `parse_combined_schema` parses every inline member from
`_deep_merge(base_object, member)` (`Dcg.Model.Siblings`: `distribute` = `map pushSib`, `trSib`). -/

open Dcg.Sem Dcg.Model.Translate in
/-- POSITION INDEPENDENCE: the member at ANY position of the list — whatever stands before it, a `null` member
included — is merged with ALL sibling keywords, and so are the members before and after it. (A merge that
consumes the keywords while walking the list — the seeded change C04-g — is not of this form.) -/
theorem sibling_keywords_position_independent (sib : Bounds) (before after : List Schema) (s : Schema) :
    distribute sib (before ++ s :: after) = distribute sib before ++ pushSib sib s :: distribute sib after := by
  simp [distribute]

open Dcg.Sem Dcg.Model.Translate in
/-- ORDER INDEPENDENCE: listing the members in another order gives the same merged members, in that order. -/
theorem sibling_keywords_order_independent (sib : Bounds) {alts alts' : List Schema} (h : alts.Perm alts') :
    (distribute sib alts).Perm (distribute sib alts') := h.map _

open Dcg.Sem Dcg.Model.Translate in
/-- MEANING (anyOf): for members without keywords of their own (`{"type": T}`, `{"type": "null"}`), the
combination of the merged members is valid exactly when the combination is valid AND the sibling keywords hold
for the value — the JSON-Schema reading of keywords next to `anyOf`. Every fuel, every regex oracle. -/
theorem anyOf_siblings_valid (re : Regex) (defs : Defs) (sib : Bounds) (alts : List Schema) (v : Json) (n : Nat)
    (hp : alts.all plainMember = true) :
    validJ re n defs (.anyOf (distribute sib alts)) v = (validJ re n defs (.anyOf alts) v && sibOK re sib v) := by
  cases n with
  | zero => simp [validJ]
  | succ n =>
    simp only [validJ]
    have h := distribute_valid_map re defs sib v n alts hp
    have e1 : ∀ L : List Schema, L.any (fun a => validJ re n defs a v) = (L.map (fun a => validJ re n defs a v)).any id := by
      intro L; simp [List.any_map]
    rw [e1, e1, h]
    cases hs : sibOK re sib v <;> simp [List.any_map]

open Dcg.Sem Dcg.Model.Translate in
/-- MEANING (oneOf): the same for `oneOf` (exactly one member admits the value). -/
theorem oneOf_siblings_valid (re : Regex) (defs : Defs) (sib : Bounds) (alts : List Schema) (v : Json) (n : Nat)
    (hp : alts.all plainMember = true) :
    validJ re n defs (.oneOf (distribute sib alts)) v = (validJ re n defs (.oneOf alts) v && sibOK re sib v) := by
  cases n with
  | zero => simp [validJ]
  | succ n =>
    simp only [validJ]
    rw [distribute_valid_map re defs sib v n alts hp]
    cases hs : sibOK re sib v
    · have : ∀ L : List Schema, countTrue (L.map (fun _ => false)) = 0 := by
        intro L; induction L with
        | nil => rfl
        | cons a as ih => simp [countTrue]
      simp [this]
    · simp

open Dcg.Sem Dcg.Model.Translate in
/-- non-vacuity: `{"anyOf": [{"type": "null"}, {"type": "string"}], "maxLength": 2}` — the `null` member first —
refuses the three-letter string and admits the two-letter one and null -/
example : plainMember .null = true ∧ plainMember (.scalar .string false {}) = true ∧
    validJ (fun _ _ => true) 3 [] (.anyOf (distribute { maxLength := some 2 } [.null, .scalar .string false {}]))
      (.str "abc".toList) = false ∧
    validJ (fun _ _ => true) 3 [] (.anyOf (distribute { maxLength := some 2 } [.null, .scalar .string false {}]))
      (.str "ab".toList) = true ∧
    validJ (fun _ _ => true) 3 [] (.anyOf (distribute { maxLength := some 2 } [.null, .scalar .string false {}]))
      .null = true := by decide

open Dcg.Sem Dcg.Model.Translate in
/-- STAGE 1, position independence: the alternative generated for the member at any position of a combination
with sibling keywords is `trSibMember` of that member alone — it does not depend on the members listed before it. -/
theorem sibling_member_translated_alone (st : Style) (o : Opts) (sib : Bounds) (before after : List Schema) (s : Schema) :
    trSib st o sib (before ++ s :: after) =
      .union (before.map (trSibMember st o sib) ++ trSibMember st o sib s :: after.map (trSibMember st o sib)) := by
  simp [trSib]

open Dcg.Sem Dcg.Model.Translate Dcg.Model.Report Dcg.Proofs.Sem in
/-- STAGE 1, the keywords arrive: a numeric member (`integer` / `number`) at any position of a combination with
sibling keywords is generated as the scalar with the MERGED keywords at an item place under a constrained
parent, and is therefore reported with exactly the merged keywords and values — both styles, every routing.
(`scalarOK` on the merged keywords: only keywords of the type, integer bounds written as integers — D10 excluded.) -/
theorem keyword_roundtrip_sibling_member (st : Style) (o : Opts) (sib : Bounds) (ty : STy) (n : Bool) (b : Bounds)
    (before after : List Schema) (hty : ty = .integer ∨ ty = .number)
    (hok : scalarOK ty (mergeBounds b sib) = true) (hc : boundsHasConstraint (mergeBounds b sib) = true) :
    ∃ t ∈ altTys (trSib st o sib (before ++ .scalar ty n b :: after)),
      t = tr st o (.item true) (.scalar ty n (mergeBounds b sib)) ∧
      reportBounds st ty (placeCons t) = mergeBounds b sib := by
  have heq : trSibMember st o sib (.scalar ty n b) = tr st o (.item true) (.scalar ty n (mergeBounds b sib)) := by
    rcases hty with h | h <;> subst h <;>
      simp [trSibMember, tr, hc, sibFieldCons, fieldConsOfBounds, sibFam, famOf]
  refine ⟨tr st o (.item true) (.scalar ty n (mergeBounds b sib)), ?_, rfl,
    scalar_place_report st o (C03.tableOK st) _ ty n _ hok (by simp [strictSafe])⟩
  rw [sibling_member_translated_alone, ← heq]
  simp [altTys]

open Dcg.Sem Dcg.Model.Translate Dcg.Model.Report Dcg.Proofs.Sem in
/-- DICT VALUES (`additionalProperties: <scalar schema>`), PARTIAL: the keywords are reported unless
`field_constraints` is on and the value schema carries a constraint — the region of known finding D11,
stated as the explicit hypothesis `hsafe`. -/
theorem keyword_roundtrip_dict_value_partial (st : Style) (o : Opts) (ctx : Ctx) (ty : STy) (n : Bool)
    (b : Bounds) (hok : scalarOK ty b = true)
    (hsafe : o.fieldConstraints = false ∨ boundsHasConstraint b = false) :
    reportBounds st ty (placeCons (valTy (tr st o ctx (.dict (.scalar ty n b))))) = b := by
  have hv : valTy (tr st o ctx (.dict (.scalar ty n b))) = tr st o .plain (.scalar ty n b) := by
    simp [tr, valTy, Schema.isDisc]
  rw [hv]
  refine scalar_place_report st o (C03.tableOK st) _ ty n b hok ?_
  rcases hsafe with h | h <;> simp [strictSafe, h]

open Dcg.Sem Dcg.Model.Translate Dcg.Model.Report Dcg.Proofs.Sem in
/-- WITNESS (D11): under `field_constraints` the value schema `{integer, minimum 0}` of `additionalProperties`
is reported without `minimum` (`Dict[str, int]`) -/
theorem keyword_lost_dict_value_D11 :
    (reportBounds .v2 .integer (placeCons (valTy (tr .v2 { fieldConstraints := true } .plain
      (.dict (.scalar .integer false { minimum := some ⟨0, 0⟩ })))))).minimum = none ∧
    (reportBounds .v2 .integer (placeCons (valTy (tr .v2 {} .plain
      (.dict (.scalar .integer false { minimum := some ⟨0, 0⟩ })))))).minimum = some ⟨0, 0⟩ := by
  decide +kernel

open Dcg.Sem Dcg.Model.Translate Dcg.Model.Report Dcg.Proofs.Sem in
/-- ITEM COUNTS OF A NESTED ARRAY (an array that is the item of an array), PARTIAL: reported with
`field_constraints` (root model with `Field(min_length=…)`), or when there are none — the region of known
finding D31 is the explicit hypothesis `hsafe`. -/
theorem keyword_roundtrip_nested_array_partial (st : Style) (o : Opts) (ctx : Ctx) (items : Schema)
    (mn mx omn omx : Option Nat)
    (hsafe : o.fieldConstraints = true ∨ (mn.isSome || mx.isSome) = false)
    (hinner : strictSafe st o.fieldConstraints (.item (mn.isSome || mx.isSome)) items = true) :
    reportItems st (placeCons (itemTy (tr st o ctx (.array (.array items mn mx) omn omx)))) = (mn, mx) := by
  have hit : itemTy (tr st o ctx (.array (.array items mn mx) omn omx)) =
      tr st o (.item (omn.isSome || omx.isSome)) (.array items mn mx) := by
    cases ctx <;> simp only [tr] <;> try split
    all_goals simp only [itemTy]
  rw [hit]
  refine array_place_report st o (C03.tableOK st) _ items mn mx ?_
  rcases hsafe with h | h
  · rw [h] at hinner; simp [strictSafe, h, hinner]
  · rw [h] at hinner; simp [strictSafe, h, hinner]

open Dcg.Sem Dcg.Model.Translate Dcg.Model.Report Dcg.Proofs.Sem in
/-- …members (the common case) carry them in every routing -/
theorem keyword_roundtrip_member (st : Style) (o : Opts) (ty : STy) (n : Bool) (b : Bounds)
    (items : Schema) (mn mx : Option Nat) (hok : scalarOK ty b = true) :
    reportBounds st ty (mergeCons (fieldCons st o (.scalar ty n b)) (placeCons (tr st o .plain (.scalar ty n b)))) = b ∧
    reportItems st (fieldCons st o (.array items mn mx)) = (mn, mx) :=
  ⟨scalar_member_report st o (C03.tableOK st) ty n b hok, array_member_report st o (C03.tableOK st) items mn mx⟩

open Dcg.Sem Dcg.Model.Translate Dcg.Model.Report Dcg.Proofs.Sem in
/-- WITNESS (D31): `items: {"type":"array","minItems":2}` inside an array: without `field_constraints` nothing
is reported for the inner array (`List[List[int]]`); with it `minItems: 2` is. -/
theorem keyword_lost_nested_array_D31 :
    reportItems .v2 (placeCons (itemTy (tr .v2 {} .plain
      (.array (.array (.scalar .integer false {}) (some 2) none) none none)))) = (none, none) ∧
    reportItems .v2 (placeCons (itemTy (tr .v2 { fieldConstraints := true } .plain
      (.array (.array (.scalar .integer false {}) (some 2) none) none none)))) = (some 2, none) := by
  decide +kernel

open Dcg.Sem Dcg.Model.Translate Dcg.Model.Report in
/-- non-vacuity: a bounded integer as array item, union alternative and dict value; the v1 string keyword `regex` -/
example : scalarOK .integer { minimum := some ⟨1, 0⟩, exclMax := some ⟨9, 0⟩ } = true ∧
    (reportBounds .v1 .integer (placeCons (itemTy (tr .v1 { fieldConstraints := true } .top
      (.array (.scalar .integer true { minimum := some ⟨1, 0⟩, exclMax := some ⟨9, 0⟩ }) (some 1) none)))))
      = { minimum := some ⟨1, 0⟩, exclMax := some ⟨9, 0⟩ } ∧
    (reportBounds .v1 .string (placeCons (tr .v1 {} (.item false) (.scalar .string false { pattern := some "^q".toList })))).pattern
      = some "^q".toList := by decide +kernel

/-! ### Values -/

/-- FULL STRENGTH (values) would say `castValue r fam pk v` is numerically `v`. It is FALSE for an
integer-typed schema with a non-integral bound: `int()` truncates (known finding D10). -/
def ValuePreserved : Prop :=
  ∀ (r : Routing) (fam : Fam) (pk : String) (v : Dec), (castValue r fam pk v).eqv v = true

/-- PARTIAL: integral bounds are carried unchanged, whatever the routing, kind and keyword. -/
theorem value_roundtrip_partial (r : Routing) (fam : Fam) (pk : String) (v : Dec)
    (h : v.e = 0) : (castValue r fam pk v).eqv v = true := by
  obtain ⟨m, e⟩ := v
  simp only at h
  subst h
  cases fam <;> cases r <;> simp [castValue, Dec.eqv, Dec.ofInt, Dec.trunc] <;>
    split <;> simp

example : (castValue .conType .int "ge" ⟨7, 0⟩).eqv ⟨7, 0⟩ = true :=
  value_roundtrip_partial _ _ _ _ rfl

/-- REFUTATION of `ValuePreserved` (D10): `{"type":"integer","minimum":1.5}` is written as
`conint(ge=1)` / `Field(ge=1)`; the value 1 then satisfies the written bound but not the schema's. -/
theorem value_not_preserved_D10 :
    castValue .conType .int "ge" ⟨15, 1⟩ = Dec.ofInt 1 ∧
    castValue .field .int "ge" ⟨15, 1⟩ = Dec.ofInt 1 ∧
    Dec.le (Dec.ofInt 1) (Dec.ofInt 1) = true ∧ Dec.le ⟨15, 1⟩ (Dec.ofInt 1) = false ∧
    ¬ ValuePreserved := by
  refine ⟨by decide, by decide, by decide, by decide, ?_⟩
  intro h
  exact absurd (h .conType .int "ge" ⟨15, 1⟩) (by decide)

/-! ### Draft-4 boolean exclusive bounds -/

/-- FULL STRENGTH, universal over the carrier `α`, both comparison relations, every way of writing one
side of the bounds and every value `x`: whenever `validate_exclusive_maximum_and_exclusive_minimum`
does not raise, the set of values admitted by what it produces (as `ge`/`gt`, resp. `le`/`lt`) is
the set admitted by the schema as written — draft-4 `{minimum m, exclusiveMinimum true}` included. -/
theorem exclusive_normalise_sound {α : Type} (inc exc : α → α → Bool) (raw : RawSide α)
    (s : Side α) (x : α) (h : normaliseSide raw = some s) :
    admits inc exc s x = admitsRaw inc exc raw x := by
  obtain ⟨m, e⟩ := raw
  cases e with
  | none => simp [normaliseSide] at h; subst h; simp [admits, admitsRaw]
  | some ev =>
    cases ev with
    | val v => simp [normaliseSide] at h; subst h; simp [admits, admitsRaw]
    | flag b =>
      cases b with
      | false => simp [normaliseSide] at h; subst h; simp [admits, admitsRaw]
      | true =>
        cases m with
        | none => simp [normaliseSide] at h
        | some mv => simp [normaliseSide] at h; subst h; simp [admits, admitsRaw]

/-- non-vacuity, on integers: draft-4 `{minimum: 3, exclusiveMinimum: true}` admits 4 and not 3 -/
example : normaliseSide (⟨some 3, some (.flag true)⟩ : RawSide Int) = some ⟨none, some 3⟩ ∧
    admits (fun (b x : Int) => decide (b ≤ x)) (fun b x => decide (b < x)) ⟨none, some 3⟩ 3 = false ∧
    admits (fun (b x : Int) => decide (b ≤ x)) (fun b x => decide (b < x)) ⟨none, some 3⟩ 4 = true := by
  decide

/-- the normalisation raises exactly on a draft-4 `true` flag without its bound -/
theorem exclusive_normalise_defined {α : Type} (raw : RawSide α) :
    normaliseSide raw = none ↔ (raw.incl.isNone ∧ ∃ h : raw.excl.isSome, match raw.excl.get h with
      | .flag true => True
      | _ => False) := by
  obtain ⟨m, e⟩ := raw
  cases m <;> cases e with
  | none => simp [normaliseSide]
  | some ev => cases ev with
    | val v => simp [normaliseSide]
    | flag b => cases b <;> simp [normaliseSide]

/-! ### additionalProperties -/

/-- In both styles the generated class forbids extra members exactly when the schema says
`additionalProperties: false`; `true` gives `allow`; absent or a schema leaves pydantic's default. -/
theorem extra_forbid_iff_additionalProperties_false :
    ∀ st ∈ allStyles, ∀ ap ∈ apLabels,
      ((extraMap st).lookup ap).isSome ∧
      ((extraMap st).lookup ap = some "forbid" ↔ ap = "false") ∧
      ((extraMap st).lookup ap = some "allow" ↔ ap = "true") := by
  decide +kernel

/-! ## Part 2: a value the generated model accepts is valid under the schema

Same objects as C03 (`validJ`/`validJN`, `tr`, `acceptsTy`), the other direction. `validJN` is
validity up to the exemption of the property text: `null` given for a non-required member.
`acceptsTy = accept` excludes pydantic's lax coercions (`laxZone`), the other exemption. -/

open Dcg.Sem Dcg.Sem.Pyd Dcg.Model.Translate Dcg.Proofs.Sem

/-- FULL STRENGTH: whatever the generated model accepts (without coercion) is valid — no supported
constraint is lost. Kept visible; FALSE on the pinned tree (three refutations below). -/
def ViolationRejected : Prop :=
  ∀ (st : Style) (o : Opts) (re : Regex) (defs : Defs) (g : Nat) (ctx : Ctx) (s : Schema) (v : Json),
    acceptsTy st re g (trDefs st o defs) (tr st o ctx s) v = .accept → validJN re g defs s v = true

/-- PARTIAL (unbounded in schema depth, value size, `$ref` recursion and fuel; both styles, all
routings, every regex oracle): on `InSubset ∩ oneOfFree ∩ strictSafe` an accepted value is valid.
Equivalently: a value that violates `required`, a type, enum/const membership, any numeric / length
/ pattern / item-count bound or `additionalProperties: false` is rejected or needs a lax coercion.
`strictSafe` excludes exactly the places where the pinned tree loses a constraint: a constrained
scalar as `additionalProperties` value under `field_constraints` (D11), item counts of an array that
is neither a member nor a definition without `field_constraints` (D31), a required `const` member
in v1-style output (D30); `oneOf` is excluded because a `Union` accepts a value matching two
alternatives. (A required member whose schema admits null — D7 — is `laxZone` in `acceptsTy`.) -/
theorem violation_rejected_partial (st : Style) (o : Opts) (re : Regex) (defs : Defs)
    (hd : defsInSubset defs = true) (hdo : Schema.propsOneOfFree defs = true)
    (hds : defsStrict st o.fieldConstraints defs = true) (g : Nat) (ctx : Ctx) (s : Schema) (v : Json)
    (hs : s.inSubset = true) (hof : s.oneOfFree = true)
    (hss : strictSafe st o.fieldConstraints ctx s = true)
    (hacc : acceptsTy st re g (trDefs st o defs) (tr st o ctx s) v = .accept) :
    validJN re g defs s v = true :=
  sd_all st o re defs (C03.tableOK st) hd hdo hds g g (Nat.le_refl _) ctx s v hs hof hss hacc

/-- the same, read as the property states it: an invalid value is not accepted -/
theorem violation_not_accepted (st : Style) (o : Opts) (re : Regex) (defs : Defs)
    (hd : defsInSubset defs = true) (hdo : Schema.propsOneOfFree defs = true)
    (hds : defsStrict st o.fieldConstraints defs = true) (g : Nat) (ctx : Ctx) (s : Schema) (v : Json)
    (hs : s.inSubset = true) (hof : s.oneOfFree = true)
    (hss : strictSafe st o.fieldConstraints ctx s = true)
    (hinv : validJN re g defs s v = false) :
    acceptsTy st re g (trDefs st o defs) (tr st o ctx s) v ≠ .accept := by
  intro hacc
  rw [violation_rejected_partial st o re defs hd hdo hds g ctx s v hs hof hss hacc] at hinv
  cases hinv

/-- non-vacuity: C03's demo document satisfies the hypotheses in both routings, and its model
rejects the value just outside the exclusive bound -/
example : C03.demoSchema.inSubset = true ∧ C03.demoSchema.oneOfFree = true ∧
    strictSafe .v2 false .top C03.demoSchema = true ∧ strictSafe .v1 true .top C03.demoSchema = true ∧
    defsStrict .v2 false C03.demoDefs = true ∧ Schema.propsOneOfFree C03.demoDefs = true ∧
    validJN (fun _ _ => true) 12 C03.demoDefs C03.demoSchema (.obj [("a".toList, .num ⟨10, 0⟩)]) = false := by
  decide +kernel

/-- `required` (object level) reaches the IR: a member named in `required` is a required field,
unless it is a `const` member of v1-style output (D30). -/
theorem required_handling (st : Style) (o : Opts) (req : List (List Char))
    (props : List (List Char × Schema)) (p : List Char × Schema) (hp : p ∈ props)
    (hr : p.1 ∈ req) (hc : constDefaulted st p.2 = false) :
    (p.1, true, fieldCons st o p.2, tr st o .plain p.2) ∈ trProps st o req props := by
  rw [trProps_eq_map]
  refine List.mem_map.mpr ⟨p, hp, ?_⟩
  simp [hr, hc]

/-- `required` at the allOf level (a property-less member `{"required": […]}` of `allOf`), in terms of
ORIGINAL names: for EVERY field-name resolver `nm` — whatever Python name a member gets (`first-name` ↦
`first_name`, `class` ↦ `class_`, snake-casing, …) — a member whose JSON name is listed becomes a
required field of the class; it keeps its Python name and its JSON name. Unconditional: also a
`const` member of v1-style output (the mark is applied after the field was built). -/
theorem allOf_required_handling (st : Style) (o : Opts) (nm : List Char → List Char)
    (req xreq : List (List Char)) (props : List (List Char × Schema)) (p : List Char × Schema)
    (hp : p ∈ props) (hr : p.1 ∈ xreq) :
    ∃ f ∈ markRequired xreq (parseFields st o nm req props),
      f.name = nm p.1 ∧ f.originalName = some p.1 ∧ f.required = true ∧
      f.cons = fieldCons st o p.2 ∧ f.ty = tr st o .plain p.2 := by
  refine ⟨_, List.mem_map.mpr ⟨_, List.mem_map.mpr ⟨p, hp, rfl⟩, rfl⟩, ?_⟩
  simp [PField.key, hr]

/-- …and that is what stage 1 (`tr`, keyed by JSON name) says: the own fields of the class generated
for `allOf[refs…, {properties: props, required: req}, {required: xreq}]` are the fields above with the
Python names forgotten, for every resolver; hence the member is a required field of the IR. -/
theorem allOf_required_in_ir (st : Style) (o : Opts) (nm : List Char → List Char)
    (refs req xreq : List (List Char)) (props : List (List Char × Schema)) (p : List Char × Schema)
    (hp : p ∈ props) (hr : p.1 ∈ xreq) :
    tr st o .top (.allOf refs props req xreq) =
      .derived refs ((markRequired xreq (parseFields st o nm req props)).map PField.toIR) .unset ∧
    (p.1, true, fieldCons st o p.2, tr st o .plain p.2) ∈ markReq xreq (trProps st o req props) := by
  refine ⟨by simp only [tr, allOf_fields_refine], ?_⟩
  rw [markReq_trProps]
  refine List.mem_map.mpr ⟨p, hp, ?_⟩
  simp [hr]

/-- the resolver of the non-vacuity example and of the witness below: `first-name` ↦ `first_name` -/
def demoNm (n : List Char) : List Char := n.map (fun c => if c == '-' then '_' else c)

/-- non-vacuity: a member that IS renamed, named by an allOf-level `required` -/
example : demoNm "first-name".toList = "first_name".toList ∧ demoNm "first-name".toList ≠ "first-name".toList ∧
    ((markRequired ["first-name".toList]
      (parseFields .v2 {} demoNm [] [("first-name".toList, .scalar .string false {})])).map
        (fun f => (f.name, f.required))) = [("first_name".toList, true)] := by decide +kernel

/-- WITNESS that the key matters: looking the collected names up by the PYTHON name (the variant
`markRequiredByName`) leaves the renamed member optional — the statement above is false for it. -/
theorem required_by_python_name_loses_renamed :
    ((markRequiredByName ["first-name".toList]
      (parseFields .v2 {} demoNm [] [("first-name".toList, .scalar .string false {})])).map
        (fun f => (f.name, f.required))) = [("first_name".toList, false)] ∧
    ¬ (∀ (nm : List Char → List Char) (xreq : List (List Char)) (props : List (List Char × Schema))
        (p : List Char × Schema), p ∈ props → p.1 ∈ xreq →
        ∃ f ∈ markRequiredByName xreq (parseFields .v2 {} nm [] props),
          f.originalName = some p.1 ∧ f.required = true) := by
  refine ⟨by decide +kernel, ?_⟩
  intro h
  obtain ⟨f, hf, ho, hr⟩ := h demoNm ["first-name".toList]
    [("first-name".toList, .scalar .string false {})] ("first-name".toList, .scalar .string false {})
    (by simp) (by simp)
  simp only [markRequiredByName, parseFields, List.map_cons, List.map_nil, List.mem_singleton] at hf
  subst hf
  revert hr
  decide +kernel

/-- REFUTATION (D11): under `field_constraints`, `additionalProperties: {integer, minimum 0}` accepts `{"k": -1}` -/
theorem violation_accepted_D11 : ¬ ViolationRejected := by
  intro h
  have := h .v2 { fieldConstraints := true } (fun _ _ => true) [] 3 .plain
    (.dict (.scalar .integer false { minimum := some ⟨0, 0⟩ })) (.obj [("k".toList, .num ⟨-1, 0⟩)])
    (by decide +kernel)
  exact absurd this (by decide +kernel)

/-- REFUTATION (D31): `[[1]]` is accepted although the inner array needs two items -/
theorem violation_accepted_D31 :
    acceptsTy .v2 (fun _ _ => true) 6 [] (tr .v2 {} .plain
      (.array (.array (.scalar .integer false {}) (some 2) none) none none)) (.arr [.arr [.num ⟨1, 0⟩]])
      = .accept ∧
    validJN (fun _ _ => true) 6 [] (.array (.array (.scalar .integer false {}) (some 2) none) none none)
      (.arr [.arr [.num ⟨1, 0⟩]]) = false := by decide +kernel

/-- REFUTATION (D30): v1-style output accepts an object without its required `const` member -/
theorem violation_accepted_D30 :
    acceptsTy .v1 (fun _ _ => true) 4 [] (tr .v1 {} .top
      (.object [("k".toList, .const (.str "zz".toList))] ["k".toList] .absent)) (.obj []) = .accept ∧
    validJN (fun _ _ => true) 4 [] (.object [("k".toList, .const (.str "zz".toList))] ["k".toList] .absent)
      (.obj []) = false := by decide +kernel

/-! ## Part 3: `required` naming an INHERITED member (multiple inheritance)

`required` next to `allOf` may name a member that the class does not declare itself: the member of a `$ref` base, or
of a base of a base, any number of levels up, through any of several bases. `_parse_object_common_part` leaves a
placeholder field, `Parser.__override_required_field` looks the name up with `_find_field` — breadth first over the
base classes — and re-declares the member as required (Dcg/Model/Inherit.lean: `findField`, `overrideFields`).
The statements quantify over EVERY table of classes and base-class edges (any number of bases per class, any depth,
diamonds); `Acyclic` — a rank decreasing along every edge — is what Python demands of a class hierarchy anyway. -/

open Dcg.Model.Inherit Dcg.Proofs.SemInherit

/-- FULL STRENGTH, over an arbitrary acyclic base-class table: a placeholder `p` of class `c` whose name is
declared by SOME class reachable from the bases of `c` — a direct base or an ancestor of ANY base, at any depth —
is replaced by a copy of a declaration `o` of that name, found in a reachable class, with `required = True`.
The fuel `queueCost T R (bases T c)` (number of visits of the loop) always suffices. -/
theorem inherited_required_handling (T : Table) (rank : Name → Nat) (R : Nat) (hT : Acyclic T rank R)
    (c : Name) (fs : List Fld) (p : Fld) (hp : p ∈ fs) (hph : p.placeholder = true)
    (g : Nat) (hg : queueCost T R (bases T c) ≤ g)
    (d : Name) (f0 : Fld) (hr : Reach T (bases T c) d) (hd : declares T d p.name = some f0) :
    ∃ d' o, Reach T (bases T c) d' ∧ declares T d' p.name = some o ∧
      { o with required := true } ∈ overrideFields T g c fs ∧
      ({ o with required := true } : Fld).name = p.name ∧ ({ o with required := true } : Fld).required = true := by
  obtain ⟨d', o, hfound, hr', hd'⟩ := findField_finds T rank R hT p.name g (bases T c) hg d f0 hr hd
  exact ⟨d', o, hr', hd', overrideFields_replaces T g c fs p hp hph d' o hfound, (declares_spec hd').1, rfl⟩

/-- …read as the property states it: after the pass the class has a REQUIRED field of that name -/
theorem inherited_member_is_required (T : Table) (rank : Name → Nat) (R : Nat) (hT : Acyclic T rank R)
    (c : Name) (fs : List Fld) (p : Fld) (hp : p ∈ fs) (hph : p.placeholder = true)
    (g : Nat) (hg : queueCost T R (bases T c) ≤ g)
    (d : Name) (f0 : Fld) (hr : Reach T (bases T c) d) (hd : declares T d p.name = some f0) :
    (overrideFields T g c fs).any (fun x => x.name == p.name && x.required) = true := by
  obtain ⟨_, o, _, _, hmem, hn, hreq⟩ := inherited_required_handling T rank R hT c fs p hp hph g hg d f0 hr hd
  refine List.any_eq_true.mpr ⟨_, hmem, ?_⟩
  have hn' : o.name = p.name := hn
  simp [hn']

/-- NOTHING ELSE HAPPENS: every field after the pass is an untouched own field, or the required copy of the
declaration the lookup found for one of the placeholders — in a class reachable from the bases (soundness of the
lookup: it never invents a member, never takes one from an unrelated class). -/
theorem override_result_origin (T : Table) (g : Nat) (c : Name) (fs : List Fld) (x : Fld)
    (hx : x ∈ overrideFields T g c fs) :
    (x ∈ fs ∧ x.placeholder = false) ∨
    ∃ p ∈ fs, p.placeholder = true ∧ ∃ d o, Reach T (bases T c) d ∧ declares T d p.name = some o ∧
      x = { o with required := true } := by
  rcases overrideFields_origin T g c fs x hx with h | ⟨p, hp, hph, d, o, hfound, rfl⟩
  · exact Or.inl h
  · obtain ⟨hr, hd⟩ := findField_sound T p.name g _ d o hfound
    exact Or.inr ⟨p, hp, hph, d, o, hr, hd, rfl⟩

/-- own fields are not touched -/
theorem override_keeps_own_fields (T : Table) (g : Nat) (c : Name) (fs : List Fld) (f : Fld) (hf : f ∈ fs)
    (hp : f.placeholder = false) : f ∈ overrideFields T g c fs :=
  overrideFields_keeps T g c fs f hf hp

/-- the lookup returns `None` only when NO class reachable from the bases declares the name (so a `required`
is dropped only when it names a member that exists nowhere in the hierarchy) -/
theorem lookup_none_only_if_undeclared (T : Table) (n : Name) (g : Nat) (q : List Name)
    (h : findField T n g q = .absent) (d : Name) (hr : Reach T q d) : declares T d n = none :=
  findField_complete T n g q h d hr

/-- the lattice of the non-vacuity example and of the witness: two roots, a class on each, a class with both as bases

    N {label}     I {id}
      ^             ^
    G {tags}      V {wheels}
        \         /
         C  (placeholders for `id`, `label`) -/
def demoTable : Table :=
  [("N".toList, ⟨[⟨"label".toList, false, false, 1⟩], []⟩),
   ("I".toList, ⟨[⟨"id".toList, false, false, 2⟩], []⟩),
   ("G".toList, ⟨[⟨"tags".toList, false, false, 3⟩], ["N".toList]⟩),
   ("V".toList, ⟨[⟨"wheels".toList, false, false, 4⟩], ["I".toList]⟩),
   ("C".toList, ⟨[⟨"id".toList, true, true, 0⟩, ⟨"label".toList, true, true, 0⟩], ["G".toList, "V".toList]⟩)]

def demoRank (n : Name) : Nat :=
  if n = "C".toList then 2 else if n = "G".toList ∨ n = "V".toList then 1 else 0

/-- non-vacuity: the lattice is acyclic; `id` — declared two levels up, above the SECOND base — and `label` —
above the first — are both re-declared as required, as copies (tags 2 and 1) of the ancestors' declarations -/
example : (∀ c ∈ demoTable.map (·.1), ∀ b ∈ bases demoTable c, demoRank b < demoRank c) ∧
    queueCost demoTable 2 (bases demoTable "C".toList) = 4 ∧
    overrideFields demoTable 4 "C".toList
      [⟨"id".toList, true, true, 0⟩, ⟨"label".toList, true, true, 0⟩] =
      [⟨"id".toList, true, false, 2⟩, ⟨"label".toList, true, false, 1⟩] := by decide +kernel

/-- WITNESS that EVERY base must be followed: the variant of the lookup that continues only with the bases of the
first class that has any (`findFieldFirstBranch`) does not find `id` — `G` comes first, its ancestors do not declare
`id`, the ancestors of `V` are never visited — so the statement above is false for it: the placeholder is dropped
and the `required` silently lost. -/
theorem first_branch_only_loses_inherited_required :
    findField demoTable "id".toList 4 (bases demoTable "C".toList) =
      .found "I".toList ⟨"id".toList, false, false, 2⟩ ∧
    (∀ g, findFieldFirstBranch demoTable "id".toList (g + 3) (bases demoTable "C".toList) = .absent) ∧
    Reach demoTable (bases demoTable "C".toList) "I".toList ∧
    declares demoTable "I".toList "id".toList = some ⟨"id".toList, false, false, 2⟩ := by
  refine ⟨by decide +kernel, ?_, ?_, by decide +kernel⟩
  · intro g
    have e1 : ∀ g, findFieldFirstBranch demoTable "id".toList (g + 1) ["G".toList, "V".toList] =
        findFieldFirstBranch demoTable "id".toList g ["N".toList] := by
      intro g
      rw [findFieldFirstBranch]
      have a : List.findSome? (fun c => (declares demoTable c "id".toList).map (fun f => (c, f)))
          ["G".toList, "V".toList] = none := by decide +kernel
      have b : List.find? (fun c => !(bases demoTable c).isEmpty) ["G".toList, "V".toList] = some "G".toList := by
        decide +kernel
      have c : bases demoTable "G".toList = ["N".toList] := by decide +kernel
      rw [a, b]
      simp only [c]
    have e2 : ∀ g, findFieldFirstBranch demoTable "id".toList (g + 1) ["N".toList] = .absent := by
      intro g
      rw [findFieldFirstBranch]
      have a : List.findSome? (fun c => (declares demoTable c "id".toList).map (fun f => (c, f)))
          ["N".toList] = none := by decide +kernel
      have b : List.find? (fun c => !(bases demoTable c).isEmpty) ["N".toList] = none := by decide +kernel
      rw [a, b]
    have h1 : bases demoTable "C".toList = ["G".toList, "V".toList] := by decide +kernel
    rw [h1, show g + 3 = (g + 1 + 1) + 1 from rfl, e1, e2]
  · have hV : "V".toList ∈ bases demoTable "C".toList := by decide +kernel
    have hI : "I".toList ∈ bases demoTable "V".toList := by decide +kernel
    exact Reach.step (Reach.start hV) hI

open Dcg.Sem Dcg.Sem.Pyd Dcg.Model.Translate in
/-- REFUTATION (known finding C04-nullable-map-value-lost): a map object behind a nullable type list —
`{"type": ["object", "null"], "additionalProperties": {"type": "integer"}}` — is generated as
`Optional[Dict[str, Any]]`: the value schema does not reach the IR (`get_data_type` maps the entry `object` of the
type list to `Dict[str, Any]`), so `{"k": "zq"}` is accepted. (`Schema.ndict` is outside `oneOfFree`, the region of
`violation_rejected_partial`, for this reason.) -/
theorem violation_accepted_nullable_map :
    acceptsTy .v2 (fun _ _ => true) 6 [] (tr .v2 {} .plain (.ndict (.scalar .integer false {})))
      (.obj [("k".toList, .str "zq".toList)]) = .accept ∧
    validJN (fun _ _ => true) 6 [] (.ndict (.scalar .integer false {})) (.obj [("k".toList, .str "zq".toList)]) = false ∧
    (Schema.ndict (.scalar .integer false {})).oneOfFree = false := by decide +kernel

/-! ### Constrained-type CALLS in a rendered union (`types._remove_none_from_union` / `get_optional_type`)

Without --field-constraints the keywords of a scalar travel as the keyword arguments of a call —
`conint(ge=0, le=100, multiple_of=2)` — and the hint of a member that is not required (or nullable) goes through the
string surgery of `get_optional_type`.  `Dcg.Model.Types.removeNoneU` is the character-level transliteration of that
function (tied to the real one on every run: campaign `types.rmnone … call-syntax hints`).  It splits at every comma
outside SQUARE brackets, so the keyword arguments of a call are parts of their own; a member is modelled as the list
of its fragments (`Dcg.Proofs.TypesCall.Member`). -/
section Calls
open Dcg.Model.Types Dcg.Proofs.TypesCall

/-- FULL-STRENGTH statement (false of the code, kept visible): whatever the texts of the members are (trimmed, not
`None`, not themselves a `Union[`), removing `None` from `Union[t₁, …, tₖ, None]` gives `Union[t₁, …, tₖ]`. -/
def UnionMembersPreserved : Prop :=
  ∀ ts : List Str, 2 ≤ ts.length →
    (∀ t ∈ ts, Dcg.Proofs.Types.trimmedS t = true ∧ startsWith sUnionPrefix t = false ∧ t ≠ sNone) →
    removeNone false (sUnionPrefix ++ joinSep sComma (ts ++ [sNone]) ++ [']']) = sUnionPrefix ++ joinSep sComma ts ++ [']']

/-- REFUTATION (known finding D33): a comma NOT followed by a blank inside a call — the pattern `^z{2,}` — comes back
as `^z{2, }`: the text of the member is not preserved (the parts are re-joined with `", "`). -/
theorem union_members_not_preserved_D33 : ¬ UnionMembersPreserved := by
  intro h
  have := h ["constr(pattern=r'^z{2,}')".toList, "int".toList] (by decide) (by decide +kernel)
  exact absurd this (by decide +kernel)

/-- PARTIAL, the region = every member is `None` or a list of fragments that are single pieces of the split
(`unionOK`, decidable: trimmed, square brackets closed, no comma outside them, not `None`, not a `Union[`) — which is
what the generator writes for `conint` / `confloat` / `constr` / `condecimal` calls whose patterns have no comma
outside square brackets other than `", "`: **every fragment of every member that is not `None` comes back, in order,
exactly once** — in particular a keyword argument that is textually equal in two members (`le=100` in both) is kept
in both; nothing is merged, dropped or reordered. -/
theorem union_call_fragments_kept_partial (ms : List Member) (h : unionOK ms = true) :
    removeNone false (unionText ms) = mkText (keep ms).flatten := by
  simp only [removeNone, Bool.false_eq_true, if_false]
  exact removeNoneU_calls ms h

/-- …so with two or more fragments left (two members, or one call with two keyword arguments) the result is the
union of the members that are not `None`, each VERBATIM, and `get_optional_type` wraps exactly that text. -/
theorem union_call_members_preserved_partial (ms : List Member) (h : unionOK ms = true)
    (h2 : 2 ≤ (keep ms).flatten.length) :
    removeNone false (unionText ms) = unionText (keep ms) ∧
    getOptionalType false (unionText ms) = sOptionalPrefix ++ unionText (keep ms) ++ [']'] := by
  have hne : ∀ m ∈ keep ms, m ≠ [] := fun m hm =>
    unionOK_members_ne_nil h m (List.mem_filter.mp hm).1
  have e : removeNone false (unionText ms) = unionText (keep ms) := by
    rw [union_call_fragments_kept_partial ms h, mkText_flatten_union _ hne h2]
  refine ⟨e, ?_⟩
  have hnn : unionText (keep ms) ≠ [] ∧ unionText (keep ms) ≠ sNone := by
    constructor <;> simp [unionText, sUnionPrefix, sNone]
  simp only [getOptionalType, e, hnn.1, hnn.2, or_self, if_false, Bool.false_eq_true]

/-- the union of the demonstration: two `conint` calls with the same `le=100`, and `None` -/
def callDemo : List Member :=
  [["conint(ge=0".toList, "le=100".toList, "multiple_of=2)".toList],
   [sNone],
   ["conint(ge=51".toList, "le=100".toList, "multiple_of=5)".toList]]

/-- non-vacuity: the demonstration is in the region, has a shared fragment, and the theorem gives the expected text -/
example : unionOK callDemo = true ∧ 2 ≤ (keep callDemo).flatten.length ∧
    unionText callDemo = "Union[conint(ge=0, le=100, multiple_of=2), None, conint(ge=51, le=100, multiple_of=5)]".toList ∧
    unionText (keep callDemo) = "Union[conint(ge=0, le=100, multiple_of=2), conint(ge=51, le=100, multiple_of=5)]".toList := by
  decide +kernel

example : getOptionalType false (unionText callDemo) =
    "Optional[Union[conint(ge=0, le=100, multiple_of=2), conint(ge=51, le=100, multiple_of=5)]]".toList := by
  rw [(union_call_members_preserved_partial callDemo (by decide +kernel) (by decide +kernel)).2]
  decide +kernel

/-- WITNESS that "exactly once, equal fragments included" is the point: the variant of the function that skips a
part it has already listed (de-duplicating the PARTS of the split instead of the members) loses the second member's
`le=100` — the text is still a well-formed hint, it just lacks that keyword. -/
theorem dedup_of_parts_loses_keyword :
    mkText ((keep callDemo).flatten.eraseDups) =
      "Union[conint(ge=0, le=100, multiple_of=2), conint(ge=51, multiple_of=5)]".toList ∧
    mkText ((keep callDemo).flatten.eraseDups) ≠ unionText (keep callDemo) := by
  decide +kernel

end Calls

end Dcg.Props.C04
