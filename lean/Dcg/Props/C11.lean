import Dcg.Proofs.Sort
import Dcg.Proofs.SortPost
import Dcg.Proofs.SortAction
import Dcg.Proofs.Repoint
import Dcg.Proofs.RepointLive
import Dcg.Proofs.Collapse
import Dcg.Proofs.ReusePos
/-
C11 — no model is lost or duplicated, eager dependencies are defined first, ordering terminates.
Only property theorems live here; helper lemmas are in Dcg/Proofs/Sort.lean.
The model (Dcg/Model/Sort.lean) is a transliteration of `sort_data_models` and
`Parser.__sort_models`; its agreement with the code is tested by vlib/props/c11.py on every run.

Reading guide: `out.sorted` is the `OrderedDict` the function returns (insertion order = the order
in which classes are written), `out.upd` is `require_update_action_models`.
"`out.sorted = l1 ++ m :: l2`" reads "`m` is written after exactly the models of `l1`".
-/
namespace Dcg.Props.C11
open Dcg.Model.Sort Dcg.Proofs.Sort

/-- paths of the input are pairwise distinct (the resolver keeps one model per path, C06) -/
abbrev DistinctPaths (ms : List Model) : Prop := (ms.map (·.path)).Nodup

/-! ### nothing lost, nothing duplicated -/

/-- Whenever `sort_data_models` returns, the models it returns are the input models, each exactly
once (as a list permutation of the models themselves, hence also of their paths). Any
`recursion_count`, any graph, any input order. -/
theorem sort_perm (rc : Nat) (ms : List Model) (out : Out) (hd : DistinctPaths ms)
    (h : sortDataModels rc ms = .ok out) : out.sorted.Perm ms := by
  have := sortGo_spec (B := False) rc ms [] [] out (by simpa using hd) (fun f => f.elim) (good_nil _) h
  simpa using this.2

/-- non-vacuity: a member cycle next to an inheritance chain, given derived-first -/
example : (sortDataModels 1000 [⟨2, [1, 0], [1]⟩, ⟨1, [0], [0]⟩, ⟨0, [2], []⟩]).map
    (fun o => (o.sorted.map (·.path), o.upd)) = .ok ([0, 1, 2], [0, 1, 2]) := by decide

/-- The hypothesis is needed: the dict silently overwrites a second model with the same path. -/
theorem sort_loses_duplicate_path :
    (sortDataModels 1000 [⟨0, [], []⟩, ⟨0, [], []⟩]).map (·.sorted.length) = .ok 1 := by decide

/-! ### eager dependencies first -/

/-- A model that names itself as base (`A: allOf[$ref A, …]`) is self-inheritance; it is reported as
circular base classes for every input that contains one, at every `recursion_count`. -/
theorem sort_self_base_is_reported (rc : Nat) (ms : List Model) (h : ∃ m ∈ ms, m.path ∈ m.bases) :
    sortDataModels rc ms = .error .circularBases :=
  sortGo_selfBase rc ms [] [] h

/-- …so whenever the function returns, no input model is its own base. -/
theorem sort_ok_implies_no_self_base (rc : Nat) (ms : List Model) (out : Out)
    (h : sortDataModels rc ms = .ok out) : ∀ m ∈ ms, m.path ∉ m.bases :=
  sortGo_ok_noSelf rc ms [] [] out h

example : sortDataModels 1000 [⟨0, [1], [1]⟩, ⟨1, [0, 1], [1]⟩] = .error .circularBases := by decide

/-- In the returned order every base class of a model stands before it — for inputs with distinct
paths (`reference_classes ⊇ bases` holds by the definition of `reference_classes`). In particular
every base is among the returned models: a base that is missing from the input makes the function
raise, never return. -/
theorem sort_base_before_derived (rc : Nat) (ms : List Model) (out : Out) (hd : DistinctPaths ms)
    (hwf : ∀ m ∈ ms, WF m) (h : sortDataModels rc ms = .ok out) :
    ∀ l1 m l2, out.sorted = l1 ++ m :: l2 → ∀ b ∈ m.bases, b ∈ l1.map (·.path) := by
  have hns := sort_ok_implies_no_self_base rc ms out h
  have := sortGo_spec (B := True) rc ms [] [] out (by simpa using hd) (fun _ => ⟨hwf, hns⟩) (good_nil _) h
  intro l1 m l2 hl b hb
  exact hasKey_iff.mp ((this.1 l1 m l2 hl).1 trivial b hb)

example : (sortDataModels 1000 [⟨0, [1, 2], [1]⟩, ⟨1, [2], []⟩, ⟨2, [0], []⟩]).map
    (·.sorted.map (·.path)) = .ok [1, 2, 0] := by decide

/-- Every dependency of a returned model other than the model itself (member types and bases
alike) either stands before it or the model is in `require_update_action_models`, i.e. gets a
`model_rebuild()` / `update_forward_refs()` call in the footer. Needs distinct paths only. -/
theorem sort_refs_before_or_flagged (rc : Nat) (ms : List Model) (out : Out) (hd : DistinctPaths ms)
    (h : sortDataModels rc ms = .ok out) :
    ∀ l1 m l2, out.sorted = l1 ++ m :: l2 → ∀ r ∈ m.refs, r ≠ m.path →
      r ∈ l1.map (·.path) ∨ m.path ∈ out.upd := by
  have := sortGo_spec (B := False) rc ms [] [] out (by simpa using hd) (fun f => f.elim) (good_nil _) h
  intro l1 m l2 hl r hr hne
  exact ((this.1 l1 m l2 hl).2 r hr hne).imp hasKey_iff.mp id

/-- What the clause does not say: a model that refers to *itself* and is released in the cycle
stage because its other dependency was written just before it is not flagged
(`1` below: refs `{0, 1}`, written second, `upd = [0]`). pydantic resolves a self reference
without a footer call, so this is recorded, not counted as a violation (see vlib/props/c11.py). -/
theorem self_ref_in_cycle_stage_unflagged :
    (sortDataModels 1000 [⟨0, [1], []⟩, ⟨1, [0, 1], []⟩]).map (fun o => (o.sorted.map (·.path), o.upd)) =
      .ok ([0, 1], [0]) := by decide

/-! ### the base-class bubble -/

/-- At a fix-point of the pass (`sorted(...) == unresolved_references`, the `break`) every base
that belongs to the batch stands before its derived model, provided paths are distinct and no
model of the batch is its own base. Ascending-chain argument: a base standing to the right forces
the key of that base to point even further right. -/
theorem bubble_fixpoint_sound (l : List Model) (hd : DistinctPaths l)
    (hns : ∀ m ∈ l, m.path ∉ m.bases) (hfix : bubblePass l = l) :
    ∀ l1 m l2, l = l1 ++ m :: l2 → ∀ b ∈ m.bases, b ∈ l.map (·.path) → b ∈ l1.map (·.path) :=
  fixpoint_sound l hd hns hfix

example : bubblePass [⟨1, [], []⟩, ⟨0, [1], [1]⟩, ⟨2, [0, 1], [1, 0]⟩] =
    [⟨1, [], []⟩, ⟨0, [1], [1]⟩, ⟨2, [0, 1], [1, 0]⟩] := by decide

/-- The hypothesis is needed for the pass taken by itself: with a self-base the fix-point `[A, B]`
below has `A` before its base `B`. Inside `sort_data_models` the hypothesis now always holds when the
loop is reached (`sort_self_base_is_reported`) — before commit 4fca813 this was the way a cycle
could hide from the bounded loop. -/
theorem bubble_fixpoint_unsound_with_self_base :
    bubblePass [⟨0, [1], [1]⟩, ⟨1, [0, 1], [1]⟩] = [⟨0, [1], [1]⟩, ⟨1, [0, 1], [1]⟩] := by decide

/-- Acyclic inheritance (a rank on paths that decreases along base edges inside the batch) and
distinct paths ⇒ the loop `for _ in range(len(unresolved_references) + 1)` reaches its fix-point:
the `else: raise … circular base classes` is not taken. Settled-prefix argument: each pass
leaves the settled prefix in place and settles at least one more model. -/
theorem bubble_converges (l : List Model) (hd : DistinctPaths l) (hac : Acyclic l) :
    (bubble (l.length + 1) l).isSome = true :=
  bubble_isSome l hd hac

/-- non-vacuity: a chain given in the worst order needs every pass -/
example : Acyclic [⟨3, [2], [2]⟩, ⟨2, [1], [1]⟩, ⟨1, [0], [0]⟩, ⟨0, [], []⟩] :=
  ⟨id, by decide⟩

example : bubble 3 [⟨3, [2], [2]⟩, ⟨2, [1], [1]⟩, ⟨1, [0], [0]⟩, ⟨0, [9], []⟩] = none ∧
    (bubble 4 [⟨3, [2], [2]⟩, ⟨2, [1], [1]⟩, ⟨1, [0], [0]⟩, ⟨0, [9], []⟩]).isSome = true := by decide

/-- The whole function: for distinct paths and acyclic inheritance `sort_data_models` never
reports circular base classes (whatever else it does). -/
theorem sort_acyclic_never_circular_error (rc : Nat) (ms : List Model) (hd : DistinctPaths ms)
    (hac : Acyclic ms) : sortDataModels rc ms ≠ .error .circularBases :=
  sortGo_ne_circular rc ms [] [] hd hac

/-- Conversely, a fix-point is only ever reached on acyclic inheritance (absent self-bases): the
order found is a witness. So every genuine inheritance cycle inside a batch ends in the
`circular base classes` error — it is never silently accepted. -/
theorem bubble_fixpoint_implies_acyclic (f : Nat) (l fx : List Model) (hd : DistinctPaths l)
    (hns : ∀ m ∈ l, m.path ∉ m.bases) (h : bubble f l = some fx) : Acyclic l := by
  obtain ⟨hfix, hperm⟩ := bubble_spec f l fx h
  have hnd : (fx.map (·.path)).Nodup := ((hperm.map (·.path)).nodup_iff).mpr hd
  exact acyclic_of_bases_first l fx hperm hnd
    (fixpoint_sound fx hnd (fun m hm => hns m (hperm.mem_iff.mp hm)) hfix)

/-- …and for the whole function: if it returns at all (distinct paths), inheritance among the
input models is acyclic. -/
theorem sort_ok_implies_acyclic (rc : Nat) (ms : List Model) (out : Out) (hd : DistinctPaths ms)
    (hwf : ∀ m ∈ ms, WF m) (h : sortDataModels rc ms = .ok out) : Acyclic ms := by
  have hperm := sort_perm rc ms out hd h
  have hnd : (out.sorted.map (·.path)).Nodup := ((hperm.map (·.path)).nodup_iff).mpr hd
  exact acyclic_of_bases_first ms out.sorted hperm hnd
    (fun l1 m l2 hl b hb _ => sort_base_before_derived rc ms out hd hwf h l1 m l2 hl b hb)

/-! ### `Parser.__sort_models` (`--keep-model-order`) -/

/-- Whenever the alphabetical pass returns, it returns a permutation of the module's models. -/
theorem sortModels_perm (imp : List (List Nat)) (f : Nat) (l l' : List Named)
    (h : sortModels imp f l = some l') : l'.Perm l :=
  ((swapLoop_spec _ imp f _ l' h).1).trans (sortBy_perm _ l)

/-- …and in the order it returns every base class of a model that is a class of the module (and
not the model itself) is either imported or stands before the model. (The loop never examines the
last position; a base of the last model that is a class of the module necessarily stands before.) -/
theorem sortModels_respects_bases (imp : List (List Nat)) (f : Nat) (l l' : List Named)
    (h : sortModels imp f l = some l') :
    ∀ p x q, l' = p ++ x :: q → ∀ b ∈ x.bases, b ≠ x.name → b ∈ l'.map (·.name) →
      b ∈ imp ∨ b ∈ p.map (·.name) := by
  intro p x q hl b hb hne hbn
  by_cases hq : q = []
  · subst hq
    subst hl
    simp only [List.map_append, List.map_cons, List.map_nil, List.mem_append, List.mem_singleton] at hbn
    rcases hbn with hbn | hbn
    · exact Or.inr hbn
    · exact absurd hbn hne
  · have hperm := sortModels_perm imp f l l' h
    have hbl : b ∈ l.map (·.name) := ((hperm.map (·.name)).mem_iff).mp hbn
    have := (swapLoop_spec _ imp f _ l' h).2 p x q hl hq
    simp only [basesResolved, List.all_eq_true, Bool.or_eq_true, beq_iff_eq, List.contains_iff_mem,
      Bool.not_eq_true'] at this
    rcases this b hb with (h1 | h1) | h1
    · have : b ∉ l.map (·.name) := by simpa using h1
      exact absurd hbl this
    · exact absurd h1 hne
    · simp only [List.mem_append, List.mem_reverse] at h1
      exact h1.symm

example : sortModels [[66, 97]] 10 [⟨[67], [[65]]⟩, ⟨[65], [[66, 97]]⟩, ⟨[66], [[67]]⟩] =
    some [⟨[65], [[66, 97]]⟩, ⟨[67], [[65]]⟩, ⟨[66], [[67]]⟩] := by decide

/-- The `while changed` loop stops (some amount of fuel suffices) whenever inheritance among the
classes OF THE MODULE is acyclic. Base classes that are not classes of the module (imported ones,
also under an alias, or unknown ones) no longer take part since commit 4fca813, so nothing has to be
assumed about them. The remaining hypothesis is what `sort_ok_implies_acyclic` gives for paths; that
the type hint of an in-module base equals the class name of its model is not proved, only tested. -/
theorem sortModels_terminates_acyclic (imp : List (List Nat)) (l : List Named)
    (hyp : ModuleAcyclic l) : ∃ f, (sortModels imp f l).isSome = true := by
  have := swapLoop_terminates_aux (l.map (·.name)) imp l (fun _ => Iff.rfl) hyp _ []
    (sortBy (fun a b => lexLe a.name b.name) l) rfl (by simpa using sortBy_perm _ l) trivial
  simpa [sortModels] using this

/-- non-vacuity: bases `Ba` (imported) and `Zz` (nowhere) do not matter -/
example : ModuleAcyclic [⟨[67], [[65], [90, 122]]⟩, ⟨[65], [[66, 97]]⟩, ⟨[66], [[67], [66]]⟩] :=
  ⟨fun n => if n = [65] then 0 else if n = [67] then 1 else 2, by decide⟩

example : (sortModels [] 10 [⟨[67], [[65], [90, 122]]⟩, ⟨[65], [[66, 97]]⟩, ⟨[66], [[67], [66]]⟩]).isSome = true := by
  decide

/-- The hypothesis is needed: the swap loop has no bound of its own, and on classes `A(B)`, `B(A, B)`
it alternates between the two orders for every amount of fuel. It relies on `sort_data_models` having
rejected cyclic inheritance before (`sort_ok_implies_acyclic`). -/
theorem sortModels_diverges_on_2cycle : ∀ f, sortModels [] f [nmA, nmB] = none := by
  intro f
  have h1 : sortBy (fun a b => lexLe a.name b.name) [nmA, nmB] = [nmA, nmB] := by decide
  have h2 : [nmA, nmB].map (·.name) = [[65], [66]] := by decide
  simp only [sortModels, h1, h2]
  exact (swapLoop_cycle_none f).1

/-- Kept for history (defect D3): on a 2-cycle of bases the pass has no fix-point, so the
unbounded `while True` of the pinned tree never left the loop — this is why the bound was
introduced. With the bound the model reports the cycle for every fuel. -/
theorem bubble_diverges_on_2cycle : ∀ f, bubble f [cycA, cycB] = none :=
  fun f => (bubble_cycle_none f).1

theorem two_cycle_is_reported : sortDataModels 1000 [cycA, cycB] = .error .circularBases := by decide

/-! ### termination -/

/-- Every loop of the model is structural (`classify`, `circular`, the sort) or bounded by the
code's own counter (`bubble` by `len+1`, the recursion by `recursion_count`), so the model is total
by construction. What remains to be said is that `recursion_count` is never the reason for leaving
the recursion: every recursive call works on strictly fewer models, so any
`recursion_count ≥ len(models)` behaves like an unbounded one. (`MAX_RECURSION_COUNT` is
`sys.getrecursionlimit()`; inputs with more models than that are outside this statement, as is
Python's own `RecursionError`, which the code catches.) -/
theorem sort_total (ms : List Model) (k : Nat) :
    sortDataModels (ms.length + k) ms = sortDataModels ms.length ms :=
  sortGo_fuel ms [] [] k

/-- and a smaller count does make a difference (so the statement above is not trivial) -/
example : sortDataModels 0 [⟨0, [1], []⟩, ⟨1, [2], []⟩, ⟨2, [], []⟩] ≠
    sortDataModels 3 [⟨0, [1], []⟩, ⟨1, [2], []⟩, ⟨2, [], []⟩] := by decide

/-! ### the interpreter stack: the `RecursionError` escape hatch -/

/-- `sort_data_models` recurses once per worklist pass, and the nested call sits in
`try: … except RecursionError: pass`. With that escape hatch an interpreter stack on which only
`stack` further nested calls fit acts exactly like the smaller `recursion_count = min rc stack`:
the caller of the call that does not fit goes on with the base-class bubble and the cycle stage.
Every theorem of this file is stated for an ARBITRARY `recursion_count`; through this equation
they hold at every stack depth (`MAX_RECURSION_COUNT = sys.getrecursionlimit()` never is the
effective bound: the call does not start on an empty stack). `sortGoS` places the error at the call
or before the callee's first write; vlib/props/c11.py observes that on the real function. -/
theorem stack_exhaustion_is_smaller_count (stack rc : Nat) (ms : List Model) :
    sortDataModelsS true stack rc ms = liftS (sortDataModels (min rc stack) ms) :=
  sortGoS_hatch stack rc ms [] []

/-- …so Python's `RecursionError` never leaves the function, for any graph, count and depth. -/
theorem hatch_contains_recursionError (stack rc : Nat) (ms : List Model) :
    sortDataModelsS true stack rc ms ≠ .error .recursionError := by
  rw [stack_exhaustion_is_smaller_count]
  exact liftS_ne_recursion _

/-- The `try/except` is needed: without it a chain of three models given referrer-first, on a
stack with room for one nested call, ends in `RecursionError` although `recursion_count` is 1000. -/
theorem without_hatch_recursionError_escapes :
    sortDataModelsS false 1 1000 [⟨0, [1], []⟩, ⟨1, [2], []⟩, ⟨2, [], []⟩] = .error .recursionError := by
  decide

/-- with it the same input on the same stack is ordered, the tail treated like a cycle -/
example : (sortDataModelsS true 1 1000 [⟨0, [1], []⟩, ⟨1, [2], []⟩, ⟨2, [], []⟩]).map
    (fun o => (o.sorted.map (·.path), o.upd)) = .ok ([2, 1, 0], []) := by decide

example : (sortDataModelsS true 0 1000 [⟨0, [1], []⟩, ⟨1, [2], []⟩, ⟨2, [], []⟩]).map
    (fun o => (o.sorted.map (·.path), o.upd)) = .ok ([2, 0, 1], [0]) := by decide

/-- every reference of every model is the path of a model of the input (a complete document) -/
abbrev ClosedRefs (ms : List Model) : Prop := ∀ m ∈ ms, ∀ r ∈ m.refs, r ∈ ms.map (·.path)

/-- "Ordering terminates for every dependency graph" with a result: for distinct paths, acyclic
inheritance and a complete document the function RETURNS (no error of its own), whatever
`recursion_count` — in particular for the small counts that an almost exhausted stack amounts to
(a chain of a thousand models given referrer-first). Reference cycles are allowed. -/
theorem sort_closed_acyclic_returns (rc : Nat) (ms : List Model) (hd : DistinctPaths ms)
    (hac : Acyclic ms) (hcl : ClosedRefs ms) : ∃ out, sortDataModels rc ms = .ok out :=
  sortGo_ok_of_closed rc ms [] [] hd hac (fun m hm r hr => Or.inr (hcl m hm r hr))

/-- …and the same at every stack depth, with the models of the input each exactly once. -/
theorem sort_returns_at_any_stack_depth (stack rc : Nat) (ms : List Model) (hd : DistinctPaths ms)
    (hac : Acyclic ms) (hcl : ClosedRefs ms) :
    ∃ out, sortDataModelsS true stack rc ms = .ok out ∧ out.sorted.Perm ms := by
  obtain ⟨out, h⟩ := sort_closed_acyclic_returns (min rc stack) ms hd hac hcl
  refine ⟨out, ?_, sort_perm _ ms out hd h⟩
  rw [stack_exhaustion_is_smaller_count, h]
  rfl

/-- non-vacuity: a reference cycle through an inheritance chain is closed and acyclic (in bases) -/
example : ClosedRefs [⟨2, [1, 0], [1]⟩, ⟨1, [0], [0]⟩, ⟨0, [2], []⟩] ∧
    Acyclic [⟨2, [1, 0], [1]⟩, ⟨1, [0], [0]⟩, ⟨0, [2], []⟩] :=
  ⟨by decide, ⟨id, by decide⟩⟩

/-- The hypothesis `ClosedRefs` is needed: a dangling reference ends in the "can not resolve
classes" error. -/
theorem sort_dangling_is_reported : sortDataModels 1000 [⟨0, [7], []⟩] = .error .unresolved := by decide

/-! ### the cycle fall-back: the resolution call is inherited at every depth

In the fall-back (`for model in unresolved_references:` after the bubble, `circular` in the model) a
model that waits for a cycle partner is written at once and put on `require_update_action_models`; a
subclass written later inherits the annotation that names the not-yet-defined partner, so it needs a
call of its own: `update_action_parent = set(require_update_action_models).intersection(base_models)`.
Because the set is rebuilt from the LIST for every model, a subclass that was just put on the list
passes the action on to its own subclasses. -/

open Dcg.Proofs.SortAction in
/-- Split the fall-back loop at any point (`todo = pre ++ rest`): whatever is on the list when `pre` has
been dealt with — put there by the classification loop, by the recursion, or by the fall-back itself for
a model that waits for a cycle partner — stays on it, and EVERY inheritance chain `c₁, c₂, …` of ANY depth
below such a class `b` (`b` base of `c₁`, `c₁` base of `c₂`, …; met in this order among the models of
`rest`, other models in between allowed) is on the final list: each `cᵢ` gets its
`update_forward_refs()` / `model_rebuild()`. No hypothesis on the graph, the paths or the input order.
(A variant of the loop that looks the bases up in a set which is not updated where a subclass is appended
stops after one level — the model's own list has no such copy.) -/
theorem fallback_action_closed_under_subclassing (names : List Path) (pre rest s : List Model)
    (u : List Path) (s' : List Model) (u' : List Path)
    (h : circular names (pre ++ rest) s u = .ok (s', u')) :
    ∃ s1 u1, circular names pre s u = .ok (s1, u1) ∧ (∀ p ∈ u1, p ∈ u') ∧
      ∀ (chain : List Model) (b : Path), chain.Sublist rest → Descends b chain → b ∈ u1 →
        ∀ c ∈ chain, c.path ∈ u' := by
  obtain ⟨s1, u1, h1, h2⟩ := circular_split names pre rest s u s' u' h
  exact ⟨s1, u1, h1, circular_upd_mono names rest s1 u1 s' u' h2,
    circular_flags_chain names rest s1 u1 s' u' h2⟩

open Dcg.Proofs.SortAction in
/-- One level, as the code states it: a model reached in the fall-back while one of its base classes is
on the list is put on the list. -/
theorem fallback_flags_subclass_of_flagged (names : List Path) (m : Model) (ms s : List Model)
    (u : List Path) (s' : List Model) (u' : List Path)
    (h : circular names (m :: ms) s u = .ok (s', u')) (b : Path) (hb : b ∈ m.bases) (hu : b ∈ u) :
    m.path ∈ u' :=
  circular_flags_subclass names m ms s u s' u' h b hb hu

/-- The whole function on the cycle `Base{leaf: Leaf}`, `Mid(Base)`, `Low(Mid)`, `Leaf(Low)` (paths 0–3) and
on the variant with one more level, given leaf-first: `Base`, `Mid`, `Low` (and `Lower`) all get the call
(`Leaf`, a subclass of a flagged class, gets one too, which is harmless) -/
example : (sortDataModels 1000 [⟨0, [3], []⟩, ⟨1, [0], [0]⟩, ⟨2, [1], [1]⟩, ⟨3, [2], [2]⟩]).toOption.map
    (fun o => (o.sorted.map (·.path), o.upd)) = some ([0, 1, 2, 3], [0, 1, 2, 3]) := by decide

example : (sortDataModels 1000 [⟨4, [3], [3]⟩, ⟨3, [2], [2]⟩, ⟨2, [1], [1]⟩, ⟨1, [0], [0]⟩, ⟨0, [4], []⟩]).toOption.map
    (fun o => (o.sorted.map (·.path), o.upd)) = some ([0, 1, 2, 3, 4], [0, 1, 2, 3, 4]) := by decide

/-! ### `--reuse-model` and the forward-reference footer -/

/-- the pass is given models as the parser built them (no inserted subclass yet) -/
abbrev Plain (ms : List Rendered) : Prop := ∀ m ∈ ms, m.reuseOf = none

/-- `Parser.__reuse_model` loses and duplicates nothing: position by position the models of the
module keep their definition (`<path>` or `<path>/reuse`). -/
theorem reuse_keeps_every_definition (ms : List Rendered) (upd : List RPath) :
    (reusePass ms upd).1.map (·.path.1) = ms.map (·.path.1) :=
  reuseGo_paths ms [] upd

/-- Eager dependency first: the base of an inserted `class X(C): pass` is an unreplaced model with
the same rendering that stands EARLIER in the module. -/
theorem reuse_base_before_subclass (ms : List Rendered) (upd : List RPath) (hp : Plain ms) :
    ∀ l1 x l2, (reusePass ms upd).1 = l1 ++ x :: l2 → ∀ c, x.reuseOf = some c →
      ∃ y ∈ l1, y.path = c ∧ y.reuseOf = none ∧ y.key = x.key := by
  intro l1 x l2 h c hc
  rcases reuseGo_base_before ms [] upd l1 x l2 h c hc hp with h1 | h1
  · cases h1
  · exact h1

/-- The footer is complete after the pass: every model of the module that was flagged by the
sorter and every subclass inserted for a flagged model gets its
`update_forward_refs()` / `model_rebuild()` line (the subclass inherits the unresolved annotations
of its base). -/
theorem footer_complete (ms : List Rendered) (upd : List RPath) (hp : Plain ms) :
    ∀ x ∈ (reusePass ms upd).1, (x.path ∈ upd ∨ ∃ c, x.reuseOf = some c ∧ c ∈ upd) →
      x.path ∈ emitFooter ms upd := by
  intro x hx h
  have hflag : x.path ∈ (reusePass ms upd).2 := by
    rcases h with h | ⟨c, hc, hcu⟩
    · exact reuseGo_upd_mono ms [] upd _ h
    · exact reuseGo_flag ms [] upd hp x hx c hc hcu
  simp only [emitFooter, footer, List.mem_map, List.mem_filter]
  exact ⟨x, ⟨hx, by simpa using hflag⟩, rfl⟩

/-- non-vacuity and the reason the list must be read AFTER the pass: `Branch`(0) and `Bough`(1)
render alike, both point to `Tree`(2) which points back; the sorter flagged 0 and 1. The footer
names 0 and the inserted subclass `1/reuse`; a footer taken from a copy of the flags made before
the pass misses the subclass. -/
theorem stale_footer_incomplete :
    emitFooter [⟨(0, false), 7, none⟩, ⟨(1, false), 7, none⟩, ⟨(2, false), 8, none⟩] [(0, false), (1, false)] =
      [(0, false), (1, true)] ∧
    emitFooterStale [⟨(0, false), 7, none⟩, ⟨(1, false), 7, none⟩, ⟨(2, false), 8, none⟩] [(0, false), (1, false)] =
      [(0, false)] := by decide

/-! ### folding a duplicate into its twin: every user is re-pointed

`Parser.__delete_duplicate_models` (a `$ref`-only definition with the class name of its target; a
definition with the class name and the rendering of an earlier one) and `Parser.__reuse_model`
(an Enum with the rendering of an earlier model) drop a model and walk over the children of its
reference: `for child in dup.children[:]: if p(child): child.replace_reference(target)`.
If a user were left behind, the module would still name a class that is no longer written. -/
section Repoint
open Dcg.Model.Repoint Dcg.Proofs.Repoint

/-- the objects registered as children of the duplicate's reference do refer to it (that is how
`DataType.__init__` and `replace_reference` register a user) -/
abbrev ChildrenRefer (s : Store) (dup : Ref) : Prop := ∀ u ∈ s.kids dup, s.refOf u = some dup

/-- The pass never raises (`replace_reference` raises only for a caller without reference). -/
theorem repoint_returns (p : User → Bool) (dup target : Ref) (s : Store) (hne : dup ≠ target)
    (hwf : ChildrenRefer s dup) : ∃ s', repoint p dup target s = some s' := by
  obtain ⟨s', h, _⟩ := repointList_spec p dup target hne (s.kids dup) s (fun u hu => Or.inl (hwf u hu))
  exact ⟨s', h⟩

/-- After the pass NO user that takes part still refers to the dropped duplicate, for any number
of users: each of them refers to the twin, is registered with the twin, and is gone from the
duplicate's children. (No hypothesis that the children are pairwise distinct.) -/
theorem repoint_leaves_no_user (p : User → Bool) (dup target : Ref) (s s' : Store) (hne : dup ≠ target)
    (hwf : ChildrenRefer s dup) (h : repoint p dup target s = some s') :
    ∀ u ∈ s.kids dup, p u = true →
      s'.refOf u = some target ∧ u ∉ s'.kids dup ∧ u ∈ s'.kids target := by
  obtain ⟨s'', h', a, _⟩ := repointList_spec p dup target hne (s.kids dup) s (fun u hu => Or.inl (hwf u hu))
  have : s'' = s' := Option.some.inj (h'.symm.trans h)
  subst this
  exact a

/-- …and nothing else is touched: users that are not children of the duplicate, or do not take
part, keep their reference; every other reference keeps its children. -/
theorem repoint_touches_nothing_else (p : User → Bool) (dup target : Ref) (s s' : Store) (hne : dup ≠ target)
    (hwf : ChildrenRefer s dup) (h : repoint p dup target s = some s') :
    (∀ u, (u ∉ s.kids dup ∨ p u = false) → s'.refOf u = s.refOf u) ∧
      (∀ r, r ≠ dup → r ≠ target → s'.kids r = s.kids r) := by
  obtain ⟨s'', h', _, _, c, d⟩ := repointList_spec p dup target hne (s.kids dup) s (fun u hu => Or.inl (hwf u hu))
  have : s'' = s' := Option.some.inj (h'.symm.trans h)
  subst this
  exact ⟨c, d⟩

/-- No user is lost on the way: for pairwise distinct children the twin's children afterwards are
its own followed by the users that took part, IN THEIR ORDER, and the duplicate keeps exactly the
children that did not take part. -/
theorem repoint_moves_users_in_order (p : User → Bool) (dup target : Ref) (s s' : Store) (hne : dup ≠ target)
    (hwf : ChildrenRefer s dup) (hnd : (s.kids dup).Nodup) (h : repoint p dup target s = some s') :
    s'.kids target = s.kids target ++ (s.kids dup).filter p ∧
      s'.kids dup = (s.kids dup).filter (fun u => !p u) := by
  obtain ⟨s'', h', a, b, _⟩ := repointList_exact p dup target hne (s.kids dup) s hnd hwf
  have : s'' = s' := Option.some.inj (h'.symm.trans h)
  subst this
  refine ⟨b, ?_⟩
  rw [a]
  apply List.filter_congr
  intro u hu
  simp [hu]

/-- non-vacuity: reference 1 (the duplicate) has the users 10, 11, 12 and the subclass 20 (a
`DataModel`, which does not take part); reference 0 (the twin) has the user 5 -/
example : (repoint (· < 20) 1 0 (Store.ofLists [(0, [5]), (1, [10, 20, 11, 12])]
      [(5, some 0), (10, some 1), (11, some 1), (12, some 1), (20, some 1)])).map
    (fun s => s.view [0, 1] [10, 11, 12]) =
    some ([(0, [5, 10, 11, 12]), (1, [20])], [(10, some 0), (11, some 0), (12, some 0)]) := by decide

/-- What must not be done (and why the loops walk over a COPY): walking the live list by position
while `replace_reference` takes the caller out of that very list skips every second user — of
three users the middle one still refers to the dropped duplicate. One user is not enough to see
it. -/
theorem live_walk_leaves_users_behind :
    (repointLive (fun _ => true) 1 0 10 0 (Store.ofLists [(0, []), (1, [10, 11, 12])]
      [(10, some 1), (11, some 1), (12, some 1)])).map (fun s => s.view [0, 1] [10, 11, 12]) =
      some ([(0, [10, 12]), (1, [11])], [(10, some 0), (11, some 1), (12, some 0)]) ∧
    (repointLive (fun _ => true) 1 0 10 0 (Store.ofLists [(0, []), (1, [10])] [(10, some 1)])).map
      (fun s => s.view [0, 1] [10]) = some ([(0, [10]), (1, [])], [(10, some 0)]) :=
  ⟨by decide, by decide⟩

/-- The general fact behind these witnesses: for ANY number of pairwise distinct users that all take
part, the live walk ends with exactly the users at the odd positions (`everySecond`) still registered
with — and still referring to — the dropped duplicate. So from two users on the copy is needed. -/
theorem live_walk_skips_every_second_user (dup target : Ref) (s : Store) (hne : dup ≠ target)
    (hwf : ChildrenRefer s dup) (hnd : (s.kids dup).Nodup) :
    ∃ s', repointLive (fun _ => true) dup target ((s.kids dup).length + 1) 0 s = some s' ∧
      s'.kids dup = everySecond (s.kids dup) ∧ ∀ u ∈ everySecond (s.kids dup), s'.refOf u = some dup := by
  obtain ⟨s', h, k, r, _⟩ := repointLive_skips dup target hne (s.kids dup) [] s ((s.kids dup).length + 1)
    (Nat.lt_succ_self _) (by simp) (by simpa using hnd) hwf
  exact ⟨s', by simpa using h, by simpa using k, r⟩

example (a b : User) (r : List User) : everySecond (a :: b :: r) ≠ [] := by simp [everySecond]

/-- six users: three are left behind -/
example : (repointLive (fun _ => true) 1 0 10 0 (Store.ofLists [(0, []), (1, [10, 11, 12, 13, 14, 15])]
      [(10, some 1), (11, some 1), (12, some 1), (13, some 1), (14, some 1), (15, some 1)])).map
    (fun s => s.kids 1) = some [11, 13, 15] := by decide

end Repoint

/-! ### `Parser.__collapse_root_models` (Model/Collapse.lean) -/
section Collapse
open Dcg.Model.Collapse Dcg.Proofs.Collapse

/-- a model as `Model/Collapse` sees it (the sorter's `Model` is open in this file too) -/
abbrev CModel := Dcg.Model.Collapse.Model

/-- (1) `--collapse-root-models` loses no model that is not a root model and duplicates none: whenever the pass is
inside the model, the list that is written is a SUB-LIST of the list handed to the pass (order kept, nothing twice
that was not twice before; reference, root flag and base classes of every model unchanged — only members are
rewritten), and every model that is not a root model is still there. -/
theorem collapse_sublist_keeps_nonroot (ext : List Nat) (ms out : List CModel) (h : collapse ext ms = some out) :
    (out.map key).Sublist (ms.map key) ∧ ∀ m ∈ ms, m.root = false → ∃ m' ∈ out, key m' = key m := by
  unfold collapse pass at h
  cases hg : go ext [] ms [] with
  | none => rw [hg] at h; cases h
  | some r =>
    obtain ⟨ms', un⟩ := r
    rw [hg] at h
    simp at h
    subst h
    have hk := go_keys ext ms [] [] ms' un hg
    simp at hk
    refine ⟨?_, ?_⟩
    · rw [← hk]
      exact (removeUnused_sublist ms' un).map key
    · intro m hm hr
      have : key m ∈ ms'.map key := by rw [hk]; exact List.mem_map_of_mem hm
      obtain ⟨m', hm', hkm⟩ := List.mem_map.mp this
      have hr' : m'.root = false := by
        have := congrArg (fun k => k.2.1) hkm
        simp [key] at this
        rw [this]; exact hr
      exact ⟨m', removeUnused_keeps_nonroot ms' un m' hm' hr', hkm⟩

example : collapse [] [⟨0, false, [[⟨1, false, true⟩]], []⟩, ⟨1, true, [[]], []⟩] = some [⟨0, false, [[]], []⟩] := by decide

/-- what is removed is a root model that the pass put on `unused_models` -/
theorem collapse_removes_only_unused_roots (ms : List CModel) (un : List Nat) (m : CModel) (h : m ∈ ms)
    (hn : m ∉ removeUnused ms un) : m.root = true ∧ m.name ∈ un :=
  removeUnused_removed_is_root ms un m h hn

/-- (3) a root model that is still the base class of a model of the list (the `class B(A): pass` written by
--reuse-model; /repo a4c2957), or that has a user outside the list, never gets onto `unused_models`: it stays. -/
theorem collapse_keeps_base_class (ext : List Nat) (ms ms' : List CModel) (un : List Nat) (x : Nat)
    (h : pass ext ms = some (ms', un))
    (hu : ext.contains x = true ∨ ∃ b ∈ ms, b.bases.contains x = true) : x ∉ un := by
  intro hx
  unfold pass at h
  rcases hu with hu | ⟨b, hb, hbx⟩
  · rcases go_unused ext ms [] [] ms' un h x hx with h1 | h1
    · cases h1
    · rw [hu] at h1; cases h1
  · have := go_unused_base ext x ms [] [] ms' un h ⟨b, Or.inr hb, hbx⟩ hx
    cases this

/-- non-vacuity of (3), and the repaired defect itself: R (root) is inlined into A.x but stays because B(R) -/
example : collapse [] [⟨0, true, [[]], []⟩, ⟨1, false, [[⟨0, false, true⟩]], []⟩, ⟨2, true, [], [0]⟩]
    = some [⟨0, true, [[]], []⟩, ⟨1, false, [[]], []⟩, ⟨2, true, [], [0]⟩] := by decide

/-- (2) full strength — FALSE of the code: after the pass no member and no base class of a remaining model refers
to a model of the list that is gone. -/
def CollapseLeavesNoDanglingReference : Prop :=
  ∀ (ext : List Nat) (ms out : List CModel), allRegistered ms = true → collapse ext ms = some out → dangling ms out = []

/-- the witness A{x: R1}, R1 = $ref R2, R2 = array (a root model), handed over in the order A, R1, R2 (what
`sort_data_models` does when the three are on a reference cycle): A.x gets a copy of R1's data type, which refers to
R2 but is not in `R2.reference.children`; R1 and then R2 are found unused and removed; A.x refers to R2, which is
gone.  Replayed on the real generator: known finding C11-collapse-dangling-alias. -/
def danglingWitness : List CModel :=
  [⟨0, false, [[⟨1, false, true⟩]], []⟩, ⟨1, true, [[⟨2, false, true⟩]], []⟩, ⟨2, true, [[]], []⟩]

theorem collapse_dangling_without_order : ¬ CollapseLeavesNoDanglingReference := by
  intro h
  have := h [] danglingWitness [⟨0, false, [[⟨2, false, false⟩]], []⟩] (by decide) (by decide)
  revert this
  decide

/-- the same three models with every user AFTER the root model it uses (`rootsFirst`): nothing dangles, both root
models are inlined completely -/
example : rootsFirst [] [danglingWitness[2]!, danglingWitness[1]!, danglingWitness[0]!] [danglingWitness[2]!, danglingWitness[1]!, danglingWitness[0]!] = true
    ∧ collapse [] [danglingWitness[2]!, danglingWitness[1]!, danglingWitness[0]!] = some [⟨0, false, [[]], []⟩] := by decide

/-- (4) the pass is NOT idempotent: with A{x: R1}, R1 = $ref R2 visited in the order A, R1 and R2 kept alive as the
base class of C, one run leaves A.x referring to the root model R2 (the unvisited copy); a second run inlines it. -/
theorem collapse_not_idempotent :
    ∃ ms one two, collapse [] ms = some one ∧ collapse [] one = some two ∧ one ≠ two :=
  ⟨[⟨0, false, [[⟨1, false, true⟩]], []⟩, ⟨1, true, [[⟨2, false, true⟩]], []⟩, ⟨2, true, [[]], []⟩, ⟨3, true, [], [2]⟩],
   [⟨0, false, [[⟨2, false, false⟩]], []⟩, ⟨2, true, [[]], []⟩, ⟨3, true, [], [2]⟩],
   [⟨0, false, [[]], []⟩, ⟨2, true, [[]], []⟩, ⟨3, true, [], [2]⟩], by decide, by decide, by decide⟩

end Collapse

/-! ### `--reuse-model`: the position bookkeeping in a module with several duplicates of mixed kinds

`Dcg/Model/ReusePos.lean` is `Parser.__reuse_model` with Python's list operations on the LIVE list
(`for model in models.copy()`, `models.index`, `models.insert`, `models.remove`, duplicate enums collected and
removed after the loop) for models of three kinds: enums (a duplicate is dropped), plain type aliases (a duplicate
stays) and everything else (a duplicate is replaced by `class Name(First): pass`). The model is tied to the real
pass by vlib/props/c11_reusepos.py (the real model list before/after the wrapped pass inside the real parse()). -/
section ReusePos
open Dcg.Model.ReusePos Dcg.Proofs.ReusePos

/-- the witness used below: three identical enums, two identical object models, and a class that follows them -/
def rpWitness : List Item :=
  [⟨0, .enum, 1, none⟩, ⟨1, .enum, 1, none⟩, ⟨2, .enum, 1, none⟩, ⟨3, .obj, 2, none⟩, ⟨4, .obj, 2, none⟩, ⟨5, .obj, 3, none⟩]

/-- The pass as written — edits of the live list at looked-up positions — never raises on a list of distinct
model objects and comes to ONE walk over the input that writes, for every model in turn, nothing (a duplicate
enum), the model itself, or the subclass that replaces it. Any number of duplicates of any kinds in any order. -/
theorem reusePos_pass_is_one_walk (ms : List Item) (hnd : ms.Nodup) (hpl : PlainItems ms) :
    pass ms = some (spec ms) := pass_eq_spec ms hnd hpl

example : rpWitness.Nodup ∧ PlainItems rpWitness ∧
    pass rpWitness = some [⟨0, .enum, 1, none⟩, ⟨3, .obj, 2, none⟩, ⟨4, .obj, 2, some 3⟩, ⟨5, .obj, 3, none⟩] := by decide

/-- The replacement of a duplicate sits at the duplicate's position: with `pre` before the duplicate `m` and
`post` after it, the result is what the pass makes of `pre`, then `class m(c): pass`, then what it makes of `post`
— whatever was dropped or replaced in `pre` (k duplicate enums, other duplicates). What stands before the
replacement comes from `pre` only, what stands after it from `post` only (identities, in their order). -/
theorem reusePos_replacement_at_position (pre post : List Item) (m : Item) (c : Nat)
    (hnd : (pre ++ m :: post).Nodup) (hpl : PlainItems (pre ++ m :: post))
    (hk : m.kind = .obj) (hc : (cacheGo [] pre).lookup m.key = some c) :
    pass (pre ++ m :: post) = some (spec pre ++ mkSub m c :: specGo (cacheGo [] pre) post)
    ∧ ((spec pre).map (·.id)).Sublist (pre.map (·.id))
    ∧ ((specGo (cacheGo [] pre) post).map (·.id)).Sublist (post.map (·.id)) := by
  refine ⟨?_, specGo_ids_sublist pre [], specGo_ids_sublist post _⟩
  rw [pass_eq_spec _ hnd hpl, spec, specGo_append]
  simp only [specGo, img, hc, hk, cacheStep, List.singleton_append, spec]

example : (cacheGo [] (rpWitness.take 4)).lookup (rpWitness[4]!).key = some 3 ∧ (rpWitness[4]!).kind = .obj := by decide

/-- 'base before derived' of the sorted input is preserved: two models that are not enums and stand in the order
b … d before the pass are both represented after it (by themselves or by their replacement), in the same order. -/
theorem reusePos_order_preserved (l1 l2 l3 : List Item) (b d : Item)
    (hnd : (l1 ++ b :: l2 ++ d :: l3).Nodup) (hpl : PlainItems (l1 ++ b :: l2 ++ d :: l3))
    (hb : b.kind ≠ .enum) (hd : d.kind ≠ .enum) :
    ∃ o1 b' o2 d' o3, pass (l1 ++ b :: l2 ++ d :: l3) = some (o1 ++ b' :: o2 ++ d' :: o3)
      ∧ b'.id = b.id ∧ d'.id = d.id := by
  rw [pass_eq_spec _ hnd hpl, spec]
  have e : l1 ++ b :: l2 ++ d :: l3 = l1 ++ (b :: (l2 ++ d :: l3)) := by simp
  rw [e, specGo_append, specGo, specGo_append, specGo]
  obtain ⟨b', hb1, hb2⟩ := img_of_not_enum (cacheGo [] l1) b hb
  obtain ⟨d', hd1, hd2⟩ := img_of_not_enum (cacheGo (cacheStep (cacheGo [] l1) b) l2) d hd
  refine ⟨specGo [] l1, b', specGo (cacheStep (cacheGo [] l1) b) l2, d',
    specGo (cacheStep (cacheGo (cacheStep (cacheGo [] l1) b) l2) d) l3, ?_, hb2, hd2⟩
  rw [hb1, hd1]
  simp

example : ∃ l1 l2 l3 b d, rpWitness = l1 ++ b :: l2 ++ d :: l3 ∧ b.kind ≠ .enum ∧ d.kind ≠ .enum :=
  ⟨rpWitness.take 4, [], [], rpWitness[4]!, rpWitness[5]!, by decide, by decide, by decide⟩

/-- Nothing is duplicated and nothing changes place: the identities after the pass are a sub-sequence of the
identities before it (with distinct identities: each at most once, in the input's order). -/
theorem reusePos_nothing_duplicated (ms out : List Item) (hnd : ms.Nodup) (hpl : PlainItems ms)
    (h : pass ms = some out) : (out.map (·.id)).Sublist (ms.map (·.id)) := by
  rw [pass_eq_spec _ hnd hpl] at h
  cases h
  exact specGo_ids_sublist ms []

/-- Nothing but a duplicate enum is lost: every model that is not an enum is represented after the pass. -/
theorem reusePos_only_enums_dropped (ms out : List Item) (hnd : ms.Nodup) (hpl : PlainItems ms)
    (h : pass ms = some out) (m : Item) (hm : m ∈ ms) (hk : m.kind ≠ .enum) : ∃ x ∈ out, x.id = m.id := by
  rw [pass_eq_spec _ hnd hpl] at h
  cases h
  obtain ⟨l1, l2, rfl⟩ := List.append_of_mem hm
  obtain ⟨x, hx1, hx2⟩ := img_of_not_enum (cacheGo [] l1) m hk
  refine ⟨x, ?_, hx2⟩
  rw [spec, specGo_append, specGo, hx1]
  simp

example : (rpWitness[4]!) ∈ rpWitness ∧ (rpWitness[4]!).kind ≠ .enum := by decide

/-- The base class of an inserted subclass stands BEFORE it and is a model that the pass left as it was (so
`class Name(First): pass` never names something undefined or something that was itself replaced). -/
theorem reusePos_base_of_subclass_is_earlier (ms o1 o2 : List Item) (x : Item) (i : Nat)
    (hnd : ms.Nodup) (hpl : PlainItems ms) (h : pass ms = some (o1 ++ x :: o2)) (hx : x.sub = some i) :
    ∃ b ∈ o1, b.id = i ∧ b.sub = none := by
  rw [pass_eq_spec _ hnd hpl] at h
  have h' : specGo [] ms = o1 ++ x :: o2 := Option.some.inj h
  have := specGo_sub_base ms [] [] (by intro k j hl; simp [List.lookup] at hl) hpl o1 x o2 h' i hx
  simpa using this

example : ∃ o1 x o2 i, pass rpWitness = some (o1 ++ x :: o2) ∧ x.sub = some i :=
  ⟨[⟨0, .enum, 1, none⟩, ⟨3, .obj, 2, none⟩], ⟨4, .obj, 2, some 3⟩, [⟨5, .obj, 3, none⟩], 3, by decide, rfl⟩

/-- Refuted variant (`passStale`): the position taken from `enumerate(models.copy())` together with removing a
duplicate enum at once. Each edit alone is harmless; together every enum already removed makes the position stale
by one: on `rpWitness` the subclass that replaces model 4 is inserted AFTER model 5, which may be its subclass. -/
theorem reusePos_stale_index_misplaces :
    (passStale rpWitness).map (·.map (·.id)) = some [0, 3, 5, 4]
    ∧ (pass rpWitness).map (·.map (·.id)) = some [0, 3, 4, 5] := by decide

end ReusePos

end Dcg.Props.C11
