import Dcg.Proofs.Resolver
import Dcg.Proofs.ResolverMultidoc
import Dcg.Proofs.ResolverWorklist
import Dcg.Proofs.ResolverDedupe
import Dcg.Proofs.ResolverWalk
import Dcg.Proofs.IdRegistry
/-
C06 — each named schema yields exactly one model and every reference lands on it.
Only property theorems live here; helper lemmas are in Dcg/Proofs/Resolver.lean.

The theorems quantify over an ARBITRARY class-name function, valid-name function and
singular-name oracle (`cfg : Cfg`): they hold for the default generator, for
`--custom-class-name-generator` and for every inflect behaviour alike.
-/
namespace Dcg.Props.C06
open Dcg.Model.Resolver Dcg.Proofs.Resolver Dcg.Gen.ResolverTables

/-- the configuration of a default `ModelResolver()` (ASCII region), used in the examples -/
def dflt : Cfg := defaultCfg [] [] singularNameSuffix

def L (x : String) : Str := x.toList

/-! ### `_get_unique_name` -/

/-- The name `_get_unique_name` returns is used by no registered reference and is not an
excluded name. -/
theorem uniqueName_fresh (cfg : Cfg) (s : State) (name u : Str) (camel : Bool)
    (h : uniqueName cfg s name camel = some u) : u ∉ s.refs.map (·.name) ∧ u ∉ s.excl :=
  uniqueName_not_taken h

/-- non-vacuity: `Pet` and `Pet1` are registered, `Pet2` is excluded → `Pet3` -/
example : uniqueName dflt
    { refs := [⟨L "a#", L "Pet", L "Pet", none, true, 0⟩, ⟨L "b#", L "Pet1", L "pet", none, true, 1⟩],
      excl := [L "Pet2"], root := [], next := 2 } (L "Pet") true = some (L "Pet3") := by decide

/-- The candidates `name`, `name1`, `name2`, … (`name_1`, …; with `duplicate_name_suffix`:
`nameModel`, `nameModel1`, …) are pairwise different — also for the empty name and suffix. -/
theorem candidates_injective (sfx d name : Str) (i j : Nat) (h : cand sfx d name i = cand sfx d name j) :
    i = j := cand_injective sfx d name h

/-- the candidate sequences: default camel `Pet, Pet1, Pet2`, snake `pet, pet_1`, per-module pass
`Pet, PetModel, PetModel1`, and the empty name `"", "1"` (`if p` drops empty parts) -/
example : (List.range 3).map (cand [] [] (L "Pet")) = [L "Pet", L "Pet1", L "Pet2"] ∧
    (List.range 2).map (cand [] ['_'] (L "pet")) = [L "pet", L "pet_1"] ∧
    (List.range 3).map (cand (L "Model") [] (L "Pet")) = [L "Pet", L "PetModel", L "PetModel1"] ∧
    (List.range 2).map (cand [] ['_'] []) = [[], L "1"] := by decide

/-- TERMINATION of the `while unique_name in reference_names` loop: `|names ∪ excludes| + 1`
evaluations of the condition suffice (pigeonhole over injective candidates). -/
theorem uniqueName_fuel (cfg : Cfg) (s : State) (name : Str) (camel : Bool) :
    (uniqueName cfg s name camel).isSome = true := by
  have := uniqueName_ne_none cfg s name camel
  cases h : uniqueName cfg s name camel with
  | none => exact absurd h this
  | some _ => rfl

/-- The result is the FIRST free candidate: every earlier one is taken. -/
theorem uniqueName_first (cfg : Cfg) (s : State) (name u : Str) (camel : Bool)
    (h : uniqueName cfg s name camel = some u) :
    ∃ m, u = cand cfg.sfx (if camel then [] else ['_']) name m ∧
      ∀ i, i < m → cand cfg.sfx (if camel then [] else ['_']) name i ∈ taken s := by
  have := goU_first h
  simpa using this

/-- non-vacuity (same state as above): `Pet3` is candidate number 3 and candidates 0–2 are taken -/
example :
    let s : State := { refs := [⟨L "a#", L "Pet", L "Pet", none, true, 0⟩, ⟨L "b#", L "Pet1", L "pet", none, true, 1⟩],
                       excl := [L "Pet2"], root := [], next := 2 }
    uniqueName dflt s (L "Pet") true = some (cand [] [] (L "Pet") 3) ∧
      (List.range 3).all (fun i => (taken s).contains (cand [] [] (L "Pet") i)) = true := by decide

/-- No registry operation hangs: the `diverges` outcome of the model is unreachable. -/
theorem step_never_diverges (cfg : Cfg) (s : State) (op : Op) : (step cfg s op).2 ≠ .diverges :=
  step_out_ne_diverges cfg s op

/-! ### the registry is a function of the canonical path -/

/-- INVARIANT over all operation sequences (`add_ref`, `add`, `get`, `delete`, `set_current_root`
in any order, any arguments): the registry never holds two entries for one path. -/
theorem registry_functional (cfg : Cfg) (excl : List Str) (ops : List Op) :
    ((run cfg (State.init excl) ops).refs.map (·.path)).Nodup :=
  run_invariant PathsOk cfg (fun s op h => shape_paths (step_shape cfg s op) h) _ ops
    (by simp [PathsOk, State.init])

/-- …and from any state that has the property (one-step form). -/
theorem registry_functional_step (cfg : Cfg) (s : State) (op : Op)
    (h : (s.refs.map (·.path)).Nodup) : ((step cfg s op).1.refs.map (·.path)).Nodup :=
  shape_paths (step_shape cfg s op) h

example : (([⟨L "p#", L "A", L "A", none, true, 0⟩, ⟨L "q#", L "A", L "a", none, false, 1⟩] : List Entry).map (·.path)).Nodup := by
  decide

example : (L "#/definitions/Pet") ∈
    (run dflt (State.init []) [.addRef (L "#/definitions/Pet") false,
      .add [L "#/definitions", L "Pet"] (L "Pet") true false true none true]).refs.map (·.path) := by decide

/-- INVARIANT: `Reference` objects in the registry are pairwise different objects (identity `oid`),
all created before now. -/
theorem oids_unique (cfg : Cfg) (excl : List Str) (ops : List Op) :
    ((run cfg (State.init excl) ops).refs.map (·.oid)).Nodup ∧
      ∀ e ∈ (run cfg (State.init excl) ops).refs, e.oid < (run cfg (State.init excl) ops).next := by
  have := run_invariant OidsOk cfg (fun s op h => shape_oids (step_shape cfg s op) h) _ ops
    (by simp [OidsOk, State.init] : OidsOk (State.init excl))
  exact ⟨this.2, this.1⟩

/-! ### every reference lands on the entry of its path -/

/-- The `Reference` object that `add_ref` / `add` / `get` hands out is the object stored under
its own path… -/
theorem returned_ref_is_stored (cfg : Cfg) (s : State) (op : Op) (e : Entry)
    (h : (step cfg s op).2 = .ref e) : find (step cfg s op).1.refs e.path = some e :=
  step_ref_stored h

/-- …and REF_LANDS: after any further operations among which none deletes that path, the entry
stored under the path is still that very object (same `oid`). The name rendered for the `$ref` —
read through the object at the end — is therefore the final name of the entry at the resolved path. -/
theorem ref_lands (cfg : Cfg) (s : State) (op : Op) (e : Entry) (ops : List Op)
    (h : (step cfg s op).2 = .ref e)
    (hnd : noDeleteOf cfg e.path (step cfg s op).1 ops = true) :
    ∃ e', find (run cfg (step cfg s op).1 ops).refs e.path = some e' ∧ e'.oid = e.oid :=
  run_keeps cfg e.path ops _ e (step_ref_stored h) hnd

/-- non-vacuity: a forward reference to `pet`, then `Pet` and `pet` are parsed; the reference
object (oid 0) is the stored one and its final name is `Pet1`. -/
example :
    let ops : List Op := [.add [L "#/definitions", L "Pet"] (L "Pet") true false true none true,
                          .add [L "#/definitions", L "pet"] (L "pet") true false true none true]
    (step dflt (State.init []) (.addRef (L "#/definitions/pet") false)).2 =
        .ref ⟨L "#/definitions/pet", L "Pet", L "pet", none, false, 0⟩ ∧
      noDeleteOf dflt (L "#/definitions/pet") (step dflt (State.init []) (.addRef (L "#/definitions/pet") false)).1 ops = true ∧
      find (run dflt (step dflt (State.init []) (.addRef (L "#/definitions/pet") false)).1 ops).refs (L "#/definitions/pet") =
        some ⟨L "#/definitions/pet", L "Pet", L "pet", none, true, 0⟩ := by decide

/-- The hypothesis of `ref_lands` is needed: `add_ref`, `delete`, `add_ref` of one path leaves the
first `Reference` object dangling (the registry holds a new object, oid 1). The parser deletes only in
`parse_object` with `ignore_duplicate_model` (the model is dropped and its base class is returned). -/
theorem ref_dangles_after_delete :
    (run dflt (State.init []) [.addRef (L "#/definitions/Pet") false, .delete (.str (L "#/definitions/Pet")),
      .addRef (L "#/definitions/Pet") false]).refs.map (·.oid) = [1] := by decide

/-! ### names -/

/-- Along any sequence of `add` operations that request unique names (`unique=True`; class names
without a dotted module prefix; plain names not in singular form), ALL entries — loaded or not — have
pairwise distinct names, none of which is an excluded name. -/
theorem names_distinct_after_unique_adds (cfg : Cfg) (excl : List Str) (ops : List Op)
    (h : ops.all Op.isUniqueAdd = true) :
    ((run cfg (State.init excl) ops).refs.map (·.name)).Nodup ∧
      ∀ n ∈ (run cfg (State.init excl) ops).refs.map (·.name), n ∉ excl := by
  have key : ∀ (ops : List Op) (s : State), ops.all Op.isUniqueAdd = true → NamesOk s → s.excl = excl →
      NamesOk (run cfg s ops) ∧ (run cfg s ops).excl = excl := by
    intro ops
    induction ops with
    | nil => intro s _ hs he; exact ⟨hs, he⟩
    | cons op ops ih =>
      intro s hall hs he
      simp only [List.all_cons, Bool.and_eq_true] at hall
      exact ih _ hall.2 (step_names hall.1 hs) (by rw [step_excl]; exact he)
  have := key ops (State.init excl) h (by simp [NamesOk, State.init]) rfl
  unfold NamesOk at this
  rw [this.2] at this
  exact this.1

/-- non-vacuity: the collision pool `Pet / pet / Pet_ / Pets-item(singular) ` → `Pet, Pet1, Pet2, PetsItem` -/
example :
    let ops : List Op := [.add [L "#/definitions", L "Pet"] (L "Pet") true false true none true,
                          .add [L "#/definitions", L "pet"] (L "pet") true false true none true,
                          .add [L "#/definitions", L "Pet_"] (L "Pet_") true false true none true,
                          .add [L "#/definitions", L "Pets-item"] (L "Pets-item") true false true none true]
    ops.all Op.isUniqueAdd = true ∧
      (run dflt (State.init []) ops).refs.map (·.name) = [L "Pet", L "Pet1", L "Pet2", L "PetsItem"] := by decide

/-- The resolver ALONE does not keep names distinct: a name reserved by `add_ref` (`unique=False`)
is accepted unchecked, and the later `add` of that path returns early because the requested name
equals `original_name`. Both loaded entries are called `Pet` (confirmed on the real class; the
per-module pass below repairs it). -/
theorem reserved_name_collision :
    (run dflt (State.init []) [.add [L "#/definitions", L "Pet"] (L "Pet") true false true none true,
      .addRef (L "#/definitions/pet") false,
      .add [L "#/definitions", L "pet"] (L "pet") true false true none true]).refs.map (fun e => (e.name, e.loaded))
      = [(L "Pet", true), (L "Pet", true)] := by decide

/-- Unique-suffixing looks only at the class part of a dotted name but compares it with FULL names:
two schemas called `x.Pet` under different paths both get `x.Pet` (confirmed on the real class).
This is why `names_distinct_after_unique_adds` excludes dotted names. -/
theorem dotted_name_collision :
    (run dflt (State.init []) [.add [L "a"] (L "x.Pet") true false true none true,
      .add [L "b"] (L "x.Pet") true false true none true]).refs.map (·.name) = [L "x.Pet", L "x.Pet"] := by
  decide

/-- For a definition registered under a new path whose class-name form is still free, the class is
called exactly the class-name form of the key (no suffix, no `duplicate_name`). -/
theorem name_is_classform (cfg : Cfg) (s : State) (path : List Str) (key : Str) (loaded : Bool)
    (hnew : find s.refs (joinPath path) = none) (hdot : '.' ∉ key)
    (hfree : cfg.cn key ∉ taken s) :
    ∃ e, step cfg s (.add path key true false true none loaded) =
        ({ s with refs := s.refs ++ [e], next := s.next + 1 }, .ref e) ∧
      e.name = cfg.cn key ∧ e.dup = none ∧ e.path = joinPath path := by
  have hu : uniqueName cfg s (cfg.cn key) true = some (cfg.cn key) := by
    unfold uniqueName
    simp only [goU, cand]
    have : ¬ ((taken s).contains (cfg.cn key) = true) := by simpa using hfree
    rw [if_neg this]
  simp only [step]
  unfold add
  simp only [hnew]
  unfold addName getClassName
  rw [dotSplit_of_no_dot cfg hdot]
  simp [hu]

/-- non-vacuity: `Pet` is excluded, the key `pets-item` has the free class-name form `PetsItem` -/
example :
    let s := State.init [L "Pet"]
    find s.refs (joinPath [L "#/$defs", L "pets-item"]) = none ∧ '.' ∉ L "pets-item" ∧
      dflt.cn (L "pets-item") = L "PetsItem" ∧ dflt.cn (L "pets-item") ∉ taken s ∧
      (step dflt s (.add [L "#/$defs", L "pets-item"] (L "pets-item") true false true none true)).2 =
        .ref ⟨L "#/$defs/pets-item", L "PetsItem", L "pets-item", none, true, 0⟩ := by decide

/-! ### `Parser.__replace_duplicate_name_in_module` -/

/-- After the per-module pass the class names of a module are pairwise distinct (one name per
model), whatever names — colliding or not — the models came in with, provided the models have
different paths (`registry_functional`) and class names carry no dot (`DataModel.class_name` is the
part after the last dot). -/
theorem final_names_distinct (cfg : Cfg) (imported : List Str) (ms : List ModModel) (out : List Str)
    (hpaths : (ms.map (fun m => joinPath [m.path])).Nodup) (hdot : ∀ m ∈ ms, '.' ∉ m.cls)
    (h : replaceDuplicateNameInModule cfg imported ms = some out) :
    out.Nodup ∧ out.length = ms.length :=
  replaceDuplicateNameInModule_nodup cfg imported ms out hpaths hdot h

/-- non-vacuity, on the collision of `reserved_name_collision`: `Pet`, `Pet` ↦ `Pet`, `PetModel` -/
example :
    let ms : List ModModel := [⟨L "#/definitions/Pet", L "Pet", []⟩, ⟨L "#/definitions/pet", L "Pet", []⟩]
    (ms.map (fun m => joinPath [m.path])).Nodup ∧ (∀ m ∈ ms, '.' ∉ m.cls) ∧
      replaceDuplicateNameInModule dflt [L "BaseModel"] ms = some [L "Pet", L "PetModel"] := by decide

/-- The pass alone does NOT keep class names disjoint from imported names: its second loop gives a
model its first desired name back without looking at `exclude_names`. `Optional1` (duplicate name
`Optional`) becomes `Optional` although `Optional` is imported (confirmed on the real pass; a later
pass, `__change_imported_model_name`, renames it again). -/
theorem module_pass_restores_imported_name :
    replaceDuplicateNameInModule dflt [L "Optional", L "BaseModel"]
      [⟨L "#", L "Root", []⟩, ⟨L "#/definitions/Optional", L "Optional", []⟩,
       ⟨L "#/definitions/optional", L "Optional1", L "Optional"⟩] =
      some [L "Root", L "OptionalModel", L "Optional"] := by decide

/-! ### `Parser.__delete_duplicate_models`: merged only when the rendered content is identical -/

section dedupe
open Dcg.Model.ResolverDedupe Dcg.Proofs.ResolverDedupe

/-- the pass gives a verdict for every model -/
theorem dedupe_length (ms : List DModel) : (dedupe ms).length = ms.length := by
  have h := run_inv ms
  have := h.1.len
  rw [h.2] at this
  exact this

/-- DEDUPE_ONLY_IDENTICAL, over ANY sequence of models (any number of same-named ones, in any order,
interleaved with others): a model is dropped only in favour of an EARLIER model that has the same desired
name AND the same rendered content (`render(class_name=duplicate_class_name)`, `imports`), and that model
is itself kept. -/
theorem dedupe_only_identical (ms : List DModel) (i j : Nat) (h : (dedupe ms)[i]? = some (some j)) :
    j < i ∧ ∃ mi mj : DModel, ms[i]? = some mi ∧ ms[j]? = some mj ∧ mi.key = mj.key ∧ mi.name = mj.name ∧
      (dedupe ms)[j]? = some none := by
  have hr := run_inv ms
  have := hr.1.out i j h
  rw [hr.2] at this
  exact this

/-- …hence every `$ref`: the model that a reference to the model at position `i` is rendered as after the
pass (`land`) is a kept model with exactly the content and the desired name of model `i`. -/
theorem ref_lands_on_identical_content (ms : List DModel) (i : Nat) (mi : DModel) (h : ms[i]? = some mi) :
    ∃ mj : DModel, ms[land (dedupe ms) i]? = some mj ∧ mj.key = mi.key ∧ mj.name = mi.name ∧
      (dedupe ms)[land (dedupe ms) i]? = some none := by
  have hi : i < (dedupe ms).length := by rw [dedupe_length]; exact lt_of_get h
  unfold land
  cases hv : (dedupe ms)[i]? with
  | none =>
    have := List.getElem?_eq_none_iff.mp hv
    omega
  | some v =>
    cases v with
    | none => exact ⟨mi, h, rfl, rfl, hv⟩
    | some j =>
      obtain ⟨_, mi', mj, h1, h2, h3, h4, h5⟩ := dedupe_only_identical ms i j hv
      rw [h] at h1
      cases h1
      exact ⟨mj, h2, h3.symm, h4.symm, h5⟩

/-- non-vacuity, and what the pass does with three same-named models: a model is compared with the one
registered LAST under its name. `X, X', Y` (X' = X): X' is dropped for X. `X, Y, X'`: Y replaces X in the
registry, X' differs from Y, nothing is dropped — in particular X' is NOT dropped for Y. -/
example :
    let x : DModel := ⟨"Pet".toList, "name".toList⟩
    let y : DModel := ⟨"Pet".toList, "age".toList⟩
    dedupe [x, x, y] = [none, some 0, none] ∧ dedupe [x, y, x] = [none, none, none] ∧
      dedupe [y, x, x] = [none, none, some 1] ∧ land (dedupe [x, x, y]) 1 = 0 := by decide

end dedupe

/-! ### `resolve_ref` -/

/-- Resolving an already resolved reference changes nothing (local pointers, `#`, plain relative
files; `current_root` empty or a plain relative file path). -/
theorem resolveRef_idempotent (root : List Str) (r p : Str) (hroot : RootOk root)
    (h : resolveRef root r = .ok p) : resolveRef root p = .ok p :=
  resolveRef_idem hroot h

example : RootOk [L "dir", L "b.json"] ∧
    resolveRef [L "dir", L "b.json"] (L "#/definitions/Pet") = .ok (L "dir/b.json#/definitions/Pet") ∧
    resolveRef [L "dir", L "b.json"] (L "dir/b.json#/definitions/Pet") = .ok (L "dir/b.json#/definitions/Pet") := by
  refine ⟨.inr (by decide), by decide, by decide⟩

/-- Different local pointers resolve to different registry keys. -/
theorem resolveRef_injective_local (root : List Str) (r r' p : Str)
    (hr : r.head? = some '#') (hr' : r'.head? = some '#')
    (h : resolveRef root r = .ok p) (h' : resolveRef root r' = .ok p) : r = r' := by
  have key : ∀ x : Str, x.head? = some '#' → resolveRef root x = .ok p → joinWith ['/'] root ++ x = p := by
    intro x hx hres
    unfold resolveRef at hres
    dsimp only at hres
    by_cases h1 : x = ['#']
    · simp only [h1, if_true] at hres; cases hres; rw [h1]
    · simp only [h1, if_false, hx, if_true] at hres
      split at hres
      · split at hres
        · cases hres
        · cases hres; rfl
      · cases hres
  have := (key r hr h).trans (key r' hr' h').symm
  exact List.append_cancel_left this

example : resolveRef [] (L "#/definitions/Pet") = .ok (L "#/definitions/Pet") ∧
    resolveRef [] (L "#/definitions/pet") = .ok (L "#/definitions/pet") := by decide

/-! ### which references are `$id` / anchor references (`ID_PATTERN`) -/

/-- The rule that decides whether a `$ref` is looked up in the `$id` registry is, in the source as it is now,
the reviewed one: `reference.ID_PATTERN` has the pattern text `^#[^/].*`, is compiled with `re.UNICODE` only,
and the name is read in exactly one place, `ID_PATTERN.match(joined_path)` inside `ModelResolver.resolve_ref`
(all three regenerated from /repo on every run). `isIdRef` — `#`, one character other than `/`, anything — is the
reading of these values the model implements; it is compared with the real `ID_PATTERN.match` on every run. Any
edit of the pattern, of its flags, or a new / different use of it breaks this obligation (a narrower pattern
makes references to anchors outside it land on a phantom path, a wider one captures JSON pointers). -/
theorem id_pattern_is_reviewed :
    idPattern = reviewedIdPattern ∧ idPatternFlags = reviewedIdPatternFlags ∧
      idPatternUses = reviewedIdPatternUses := by decide

/-- In the model a reference that begins with `#` goes to the id registry (which the model keeps empty, so the
step raises like the `KeyError` of the real class) exactly when it is an id reference in the sense of
`isIdRef`; `#` alone and `#/…` never do, whatever the current root. -/
theorem hash_ref_is_id_lookup_iff (root : List Str) (t : Str) :
    resolveRef root ('#' :: t) = .raised ↔ isIdRef ('#' :: t) = true :=
  resolveRef_hash_raised_iff root t

/-- Only references that begin with `#` are id references: a file reference `other.json#anchor` is never looked
up in the id registry (anchor references are same-document only). -/
theorem id_ref_begins_with_hash (r : Str) (h : isIdRef r = true) : r.head? = some '#' :=
  isIdRef_head h

example : isIdRef (L "#street-address") = true ∧ isIdRef (L "##") = true ∧ isIdRef (L "#1/x") = true ∧
    isIdRef (L "#a") = true ∧ isIdRef (L "#") = false ∧ isIdRef (L "#/definitions/Pet") = false ∧
    isIdRef (L "a.json#b") = false ∧ isIdRef [] = false ∧
    resolveRef [] (L "#street-address") = .raised ∧ resolveRef [] (L "#") = .ok (L "#") := by decide

/-! ### references into parts of the document that are not parsed yet (`reserved_refs` work list) -/

section Worklist
open Dcg.Model.ResolverWorklist Dcg.Proofs.ResolverWorklist

/-- COMPLETENESS of the `while reserved_refs:` loop of `_parse_file`: when it ends normally, every
pointer that was ever reserved — also those discovered while reserved pointers were being parsed —
has been parsed and registered as loaded. (A reserved pointer that does not exist in the document
ends the run with `missing`, i.e. a reported error, never silently.) -/
theorem worklist_complete (doc : Ptr → Option (List Ptr)) (fuel : Nat) (st st' : WState)
    (h : loop doc fuel st = .done st') : ∀ r ∈ st'.reserved, r ∈ st'.loaded :=
  loop_complete doc fuel st st' h

/-- TERMINATION: the reserved set only grows and stays inside the finite set `U` of references
written in the document, so at most `|U| + 1` rounds are made. -/
theorem worklist_terminates (U : List Ptr) (doc : Ptr → Option (List Ptr)) (hc : Closed U doc)
    (st : WState) (hnd : st.reserved.Nodup) (hsub : ∀ r ∈ st.reserved, r ∈ U) :
    loop doc (U.length + 1) st ≠ .outOfFuel :=
  loop_fuel hc (U.length + 1) st ⟨hnd, hsub⟩ (by omega)

/-- non-vacuity: a chain `s0 → s1 → s2` outside the definitions container, of which only `s0` is
reserved at the start: one round is not enough, the loop finds and loads all three. -/
example :
    let doc : Ptr → Option (List Ptr) := fun p =>
      [(L "#/extras/s0", [L "#/extras/s1"]), (L "#/extras/s1", [L "#/extras/s2"]), (L "#/extras/s2", [])].lookup p
    let st : WState := { loaded := [L "#"], reserved := [L "#/extras/s0"] }
    loop doc 1 st = .outOfFuel ∧
      loop doc 4 st = .done { loaded := [L "#/extras/s2", L "#/extras/s1", L "#/extras/s0", L "#"],
                              reserved := [L "#/extras/s0", L "#/extras/s1", L "#/extras/s2"] } := by
  decide

end Worklist

/-! ### pending pointers of a document SET (directory input) -/

section multidoc
open Dcg.Model.ResolverMultidoc Dcg.Proofs.ResolverMultidoc

/-- RESOLVES_IN_OWN_DOCUMENT: every `parse_json_pointer` that `_resolve_unparsed_json_pointer` makes
for a pending reference `file#pointer` looks the pointer up in the document `file` — whatever document
`self.raw_obj` was left at by `parse_raw` (the last one of the set), however many passes are needed and
whatever the pending references lead to. (The model keeps the field `raw_obj`; the statement holds because
it is re-assigned from the pending reference's own source before every lookup.) -/
theorem resolves_in_own_document (docs : Nat → Ptr → Option (List Ref)) (nDocs fuel : Nat)
    (loaded reserved : List Ref) (staleRawObj : Nat) (st' : MState)
    (h : resolveUnparsed docs nDocs fuel ⟨loaded, reserved, staleRawObj, []⟩ = .done st') :
    ∀ e ∈ st'.trace, e.1 = e.2.doc :=
  resolveUnparsed_own docs nDocs fuel _ st' h (by intro e he; cases he)

/-- non-vacuity: three documents, `raw_obj` left at the last one (2); document 2 referenced
`0#/x-parts/Alpha`, whose subschema refers on to `1#/x-parts/Beta`: two passes, both lookups in the
pointers' own documents. -/
example :
    let docs : Nat → Ptr → Option (List Ref) := fun d p =>
      if d = 0 ∧ p = "/x-parts/Alpha".toList then some [⟨1, "/x-parts/Beta".toList⟩]
      else if d = 1 ∧ p = "/x-parts/Beta".toList then some []
      else none
    (match resolveUnparsed docs 3 5 ⟨[], [⟨0, "/x-parts/Alpha".toList⟩], 2, []⟩ with
      | .done st => st.trace.map (fun e => (e.1, e.2.doc))
      | _ => []) = [(0, 0), (1, 1)] := by decide

end multidoc

/-! ### relative-file references in a tree of directories: a function of (current base path, reference) -/

section basepath
open Dcg.Model.ResolverMultidoc Dcg.Proofs.ResolverMultidoc

/-- RESOLUTION IS HISTORY-FREE: whatever `resolve_ref` calls were made before — in this or in other
directories, inside contexts that have been left since — the answer to `resolve_ref(r)` is the same as
if none of them had been made. -/
theorem resolve_ignores_earlier_resolves (s : CState) (ops : List COp) (r : List Char) :
    answerAfter s ops r = answerAfter s (ops.filter (fun o => !o.isResolve)) r := by
  unfold answerAfter
  rw [crun_filter]

/-- …and it is a function of the current base path and the reference alone: two histories that end
in the same current directory give the same answer. -/
theorem resolve_function_of_current_directory (s s' : CState) (ops ops' : List COp) (r : List Char)
    (h : (crun s ops).cur = (crun s' ops').cur) : answerAfter s ops r = answerAfter s' ops' r := by
  unfold answerAfter
  simp only [cstep, h]

/-- LEAVING A CONTEXT RESTORES THE DIRECTORY: after `with current_base_path_context(p): body` — `body` any
history that leaves only contexts it entered itself — the resolver is in the state it was in before, so a
reference written in the enclosing document is resolved against the enclosing document's directory again. -/
theorem exit_restores (s : CState) (p : Option (List Char)) (body : List COp) (h : nest 0 body = some 0) :
    crun s (.enter p :: body ++ [.exit]) = s := by
  simp only [crun, List.cons_append]
  rw [crun_append]
  obtain ⟨top', h1, h2⟩ := crun_nested body 0 0 [] (stk (cstep s (.enter p)).1) _ (by simp [stk]) rfl rfl h
  have htop : top' = [] := List.eq_nil_of_length_eq_zero h2
  rw [htop, List.nil_append] at h1
  rw [stk_inj h1]
  cases s
  rfl

/-- non-vacuity: inside `sub` the string `common.json#/definitions/Id` is resolved (and, in between, another
directory is entered and left); back outside, the same string names the file of the outer directory. -/
example :
    let r := "common.json#/definitions/Id".toList
    let body : List COp := [.resolve r, .enter (some "other".toList), .resolve r, .exit]
    nest 0 body = some 0 ∧
      answerAfter CState.init [.enter (some "sub".toList)] r = .ok "sub/common.json#/definitions/Id".toList ∧
      answerAfter CState.init (.enter (some "sub".toList) :: body ++ [.exit]) r = .ok "common.json#/definitions/Id".toList := by
  decide

/-- EQUAL RELATIVE STRINGS IN DIFFERENT DIRECTORIES MEAN DIFFERENT FILES: for directories and a relative file
path made of plain names, the file a reference names determines the directory it was written in. -/
theorem same_string_other_directory (cur cur' : Dir) (file : List Seg)
    (hc : cur.all plainSeg = true) (hc' : cur'.all plainSeg = true) (hf : file.all plainSeg = true)
    (h : resolveFile cur file = resolveFile cur' file) : cur = cur' := by
  rw [resolveFile_plain cur file hc hf, resolveFile_plain cur' file hc' hf] at h
  exact List.append_cancel_right (Option.some.inj h)

example : resolveFile ["sub".toList] ["common.json".toList] = some ["sub".toList, "common.json".toList] ∧
    resolveFile [] ["common.json".toList] = some ["common.json".toList] ∧
    resolveFile ["sub".toList, "deep".toList] ["..".toList, "common.json".toList] = some ["sub".toList, "common.json".toList] := by
  decide

/-- REFUTATION (confirmed on the real class, known finding C06-K3): inside the context of a SUB-directory
`resolve_ref` is not idempotent — its answers are relative to `_base_path`, its arguments relative to the
current directory. `_parse_file` asks `model_resolver.get(path)` with an already resolved path: below `sub/`
that looks up `sub/sub/b.json#…`, finds nothing, and the definition is parsed a second time. -/
theorem resolveIn_not_idempotent_below_base :
    resolveIn ["sub".toList] "b.json#/definitions/Thing".toList = .ok "sub/b.json#/definitions/Thing".toList ∧
      resolveIn ["sub".toList] "sub/b.json#/definitions/Thing".toList = .ok "sub/sub/b.json#/definitions/Thing".toList := by
  decide

end basepath

/-! ### the walk that hands `$ref`s to the loader (`JsonSchemaParser.parse_ref`) -/

section Walk

/-- `parse_ref` — the only place where a `$ref` is handed to `resolve_ref`, i.e. gets its external file loaded or its
local pointer reserved — descends, in the source as it is now, into EVERY keyword under which a subschema can stand.
Both lists are read from /repo on every run: `schemaFields` are the fields of `JsonSchemaObject` whose annotation
mentions `JsonSchemaObject` (items, additionalProperties, patternProperties, oneOf, anyOf, allOf, properties),
`parseRefDescends` the attributes of the walked object whose values reach the recursive call (through helper functions
/ generators as well). A keyword missing from the walk (or a new schema-valued field the walk does not know) breaks this
obligation: a reference below it is registered by the type builder but never loaded — no class, `A Parser can not
resolve classes` — unless something else happens to load its target. -/
theorem parse_ref_descends_into_every_schema_field :
    schemaFields ≠ [] ∧ ∀ k ∈ schemaFields, k ∈ parseRefDescends := by decide

/-- Model `Model.ResolverWalk.collect`: a walk that descends into the keywords `kws` hands over every reference written
anywhere in a schema all of whose keywords are in `kws` — at every depth, under every combination of keywords. -/
theorem walk_complete (kws : List (List Char)) (t : Dcg.Model.ResolverWalk.Sch) (h : ∀ k ∈ Dcg.Model.ResolverWalk.keywordsOf t, k ∈ kws) :
    Dcg.Model.ResolverWalk.collect kws t = Dcg.Model.ResolverWalk.allRefs t := Dcg.Proofs.ResolverWalk.collect_complete kws t h

/-- … and never anything that is not written in the schema. -/
theorem walk_sound (kws : List (List Char)) (t : Dcg.Model.ResolverWalk.Sch) (r : Nat) (h : r ∈ Dcg.Model.ResolverWalk.collect kws t) : r ∈ Dcg.Model.ResolverWalk.allRefs t :=
  Dcg.Proofs.ResolverWalk.collect_sound kws t r h

/-- The hypothesis of `walk_complete` is needed keyword by keyword: a reference whose only way in leads through a keyword
the walk does not know is not handed over (the mechanism of seeded change C06-g: `oneOf` missing from the walk). -/
theorem walk_misses_below_unknown_keyword (kws : List (List Char)) (kw : List Char) (r : Nat) (h : kw ∉ kws) :
    Dcg.Model.ResolverWalk.collect kws (.sub kw (.ref r .nil) .nil) = [] ∧ Dcg.Model.ResolverWalk.allRefs (.sub kw (.ref r .nil) .nil) = [r] :=
  Dcg.Proofs.ResolverWalk.collect_misses kws kw r h

/-- The walk of the source as it is now (`Dcg.Model.ResolverWalk.collect parseRefDescends`, compared with the real `parse_ref` on every run)
hands over every reference of every schema built from the keywords of `JsonSchemaObject`. -/
theorem parse_ref_walk_complete (t : Dcg.Model.ResolverWalk.Sch) (h : ∀ k ∈ Dcg.Model.ResolverWalk.keywordsOf t, k ∈ schemaFields) :
    Dcg.Model.ResolverWalk.collect parseRefDescends t = Dcg.Model.ResolverWalk.allRefs t :=
  walk_complete parseRefDescends t (fun k hk => parse_ref_descends_into_every_schema_field.2 k (h k hk))

/-- non-vacuity: `{properties: {a: {oneOf: [{$ref: 0}, {items: {$ref: 1}}]}}, $ref: 2}` -/
example : Dcg.Model.ResolverWalk.collect parseRefDescends
    (.sub (L "properties") (.sub (L "oneOf") (.ref 0 .nil) (.sub (L "oneOf") (.sub (L "items") (.ref 1 .nil) .nil) .nil)) (.ref 2 .nil))
    = [0, 1, 2] := by decide

/-- `parse_id` (the walk that registers `$id` anchors) descends into the same keywords EXCEPT `oneOf` in the source as it
is now: an anchor declared below `oneOf` is not registered. Kept visible as a proposition, not as an obligation (the
anchor family of the end-to-end campaign declares anchors on entries of definitions / $defs only). -/
def parse_id_descends_into_every_schema_field : Prop := ∀ k ∈ schemaFields, k ∈ parseIdDescends

end Walk

/-! ### the `$id` registry: `parse_id`, `add_id`, and `resolve_ref` of a reference that names an `$id` -/

section Ids
open Dcg.Model.IdRegistry Dcg.Proofs.IdRegistry

/-- Model `Model.IdRegistry.collectIds` of the walk `JsonSchemaParser.parse_id`: a walk that descends into the keywords
`kws` hands EVERY `$id` written in a schema all of whose keywords are in `kws` to `add_id` — at every depth. -/
theorem parse_id_walk_complete (kws : List Str) (t : ISch) (h : ∀ k ∈ keywordsOf t, k ∈ kws) :
    collectIds kws t = allIds t := collectIds_complete kws t h

/-- … and never an `$id` that is not written in the schema. -/
theorem parse_id_walk_sound (kws : List Str) (t : ISch) (i : Str) (h : i ∈ collectIds kws t) : i ∈ allIds t :=
  collectIds_sound kws t i h

/-- The hypothesis is needed keyword by keyword: an `$id` whose only way in leads through a keyword the walk does not
know is not registered — in the source as it is now that is `oneOf` (see `parse_id_descends_into_every_schema_field`,
which stays a proposition: it is FALSE of the code as it is), so `$ref: "#x"` to `{oneOf: [{$id: "#x"}]}` raises
`KeyError` (`anchor_below_unknown_keyword_raises`). An `$id` on the walked object itself is always handed over. -/
theorem parse_id_walk_misses_below_unknown_keyword (kws : List Str) (kw seg i : Str) (h : kw ∉ kws) :
    collectIds kws (.sub kw seg (.id i .nil) .nil) = [] ∧ allIds (.sub kw seg (.id i .nil) .nil) = [i] := by
  simp [collectIds, allIds, h]

theorem top_id_is_walked (kws : List Str) (t : ISch) (i : Str) (h : i ∈ topIds t) : i ∈ collectIds kws t :=
  topIds_collected kws t i h

example : collectIds parseIdDescends
    (.id (L "#a") (.sub (L "properties") (L "p") (.id (L "#b") .nil) (.sub (L "oneOf") (L "0") (.id (L "#c") .nil) .nil)))
    = [L "#a", L "#b"] := by decide

/-- EVERY `$id` DECLARED AT A POSITION THE WALK VISITS IS REGISTERED: after `parse_id(obj, path)` (any keyword list, any
resolver environment — current root, root id, files of the input directory, ids registered before —, `path` not itself an
id reference, which holds for every path `_parse_file` walks with) each visited `$id` is a key of the id table and its
value is what `resolve_ref(path)` answers in the resulting state. -/
theorem declared_id_is_registered (kws : List Str) (e e' : Env) (path : List Str) (t : ISch)
    (hp : pathNotId path = true) (h : parseId kws e path t = some e') (i : Str) (hi : i ∈ collectIds kws t) :
    ∃ v, resolveRefId e' (joinPath path) = .ok v ∧ idGet e'.ids i = some v := by
  obtain ⟨r1, r2, r3, _, r5⟩ := addIds_spec path hp (collectIds kws t) e e' h
  obtain ⟨v, hv, hg⟩ := r5 i hi
  refine ⟨v, ?_, hg⟩
  have he : e' = { e with ids := e'.ids } := by
    cases e; cases e'; simp_all
  rw [he, resolve_path_ids_irrel e _ path hp]
  exact hv

/-- ids the walk does not visit are left as they were (a later walk does not disturb an anchor it does not declare). -/
theorem other_ids_untouched (kws : List Str) (e e' : Env) (path : List Str) (t : ISch)
    (hp : pathNotId path = true) (h : parseId kws e path t = some e') (k : Str) (hk : k ∉ collectIds kws t) :
    idGet e'.ids k = idGet e.ids k :=
  (addIds_spec path hp (collectIds kws t) e e' h).2.2.2.1 k hk

/-- A `$ref` THAT NAMES A REGISTERED `$id` RESOLVES TO THE PATH OF THE WALK THAT REGISTERED IT: for an id reference `i`
(`#name`) visited by `parse_id(obj, path)`, `resolve_ref(i)` is the answer `v` of `resolve_ref(path)` passed through the
URL step once more, and equals it whenever `v` is not a URL (every local document: then the anchor reference and the
pointer reference `path` have ONE canonical registry key, hence — `registry_functional` — one `Reference`, one model). -/
theorem anchor_ref_resolves_to_walk_path (kws : List Str) (e e' : Env) (path : List Str) (t : ISch)
    (hp : pathNotId path = true) (h : parseId kws e path t = some e') (i : Str) (hi : i ∈ collectIds kws t)
    (hid : isIdRef i = true) :
    ∃ v, resolveRefId e' (joinPath path) = .ok v ∧ resolveRefId e' i = urlStep e' v ∧
      (isUrl v = false → resolveRefId e' i = resolveRefId e' (joinPath path)) := by
  obtain ⟨v, hv, hg⟩ := declared_id_is_registered kws e e' path t hp h i hi
  refine ⟨v, hv, resolve_idRef e' i v hid hg, fun hu => ?_⟩
  rw [resolve_idRef e' i v hid hg, urlStep_not_url e' v hu, hv]

/-- non-vacuity: `main.json` with `definitions/Pet = {$id: "#pet"}`: `#pet` and `#/definitions/Pet` both resolve to
`main.json#/definitions/Pet`; under a URL root id as well -/
example :
    let e : Env := { root := [L "main.json"], rootId := some (L "https://example.com/schemas/root.json"), files := [L "main.json"], ids := [] }
    let path := [L "main.json", L "#/definitions", L "Pet"]
    pathNotId path = true ∧
    (parseId parseIdDescends e path (.id (L "#pet") .nil)).map (fun e' =>
      (resolveRefId e' (L "#pet"), resolveRefId e' (L "#/definitions/Pet"),
       resolveRefId e' (L "https://example.com/schemas/root.json#/definitions/Pet"))) =
      some (.ok (L "main.json#/definitions/Pet"), .ok (L "main.json#/definitions/Pet"), .ok (L "main.json#/definitions/Pet")) := by
  decide +kernel

/-- FULL-STRENGTH statement (what C06 asks for): a reference to a registered `$id` resolves like the JSON pointer of the
schema that DECLARES it. FALSE of the code: `parse_id` recurses with the SAME `path`, so by
`anchor_ref_resolves_to_walk_path` every nested `$id` resolves to the path of the walked entry. Holds for ids declared on
the walked object itself (`top_id_is_walked` + `anchor_ref_resolves_to_walk_path`). -/
def anchor_lands_on_declaring_schema : Prop :=
  ∀ (kws : List Str) (e e' : Env) (root : List Str) (ptr : Str) (t : ISch),
    parseId kws e (root ++ [ptr]) t = some e' →
    ∀ ip ∈ idsWithPtr ptr t, ip.1 ∈ collectIds kws t → isIdRef ip.1 = true → resolveRefId e' ip.1 = resolveRefId e' ip.2

/-- refutation (root cause of known finding C06-K4, replayed on the real parser by the id-registry campaign and end to
end by the K4 witness): `definitions/Pet = {properties: {p: {$id: "#deep"}}}` — `#deep` resolves to
`main.json#/definitions/Pet`, the pointer of the declaring schema to `main.json#/definitions/Pet/properties/p`. -/
theorem nested_anchor_lands_on_enclosing_definition : ¬ anchor_lands_on_declaring_schema := by
  intro h
  have := h parseIdDescends { root := [L "main.json"], rootId := none, files := [L "main.json"], ids := [] }
    { root := [L "main.json"], rootId := none, files := [L "main.json"], ids := [(L "#deep", L "main.json#/definitions/Pet")] }
    [] (L "#/definitions/Pet") (.sub (L "properties") (L "p") (.id (L "#deep") .nil) .nil)
    (by decide +kernel) (L "#deep", L "#/definitions/Pet/properties/p") (by decide +kernel) (by decide +kernel) (by decide +kernel)
  revert this
  decide +kernel

/-- an anchor below a keyword the walk does not know is not registered: the reference raises (`KeyError`) -/
theorem anchor_below_unknown_keyword_raises (kws : List Str) (e e' : Env) (path : List Str) (kw seg i : Str)
    (hk : kw ∉ kws) (hid : isIdRef i = true) (hfresh : idGet e.ids i = none)
    (h : parseId kws e path (.sub kw seg (.id i .nil) .nil) = some e') : resolveRefId e' i = .raised := by
  have hc : collectIds kws (.sub kw seg (.id i .nil) .nil) = [] := (parse_id_walk_misses_below_unknown_keyword kws kw seg i hk).1
  simp only [parseId, hc, addIds, Option.some.injEq] at h
  subst h
  exact resolve_idRef_unregistered e i hid hfresh

example : (L "oneOf") ∉ parseIdDescends ∧ isIdRef (L "#x") = true := by decide

/-- `resolve_ref` is NOT idempotent under a root id with a directory part that is not a URL: with
`$id: "schemas/root.json"` the reference `other.json` (no such file in the input directory) resolves to
`schemas/other.json#`, and that answer resolves to `schemas/schemas/other.json#` (same mechanism as
`resolveIn_not_idempotent_below_base`; replayed on the real resolver by the second round of the id-registry campaign). -/
theorem resolveRefId_not_idempotent_under_relative_root_id :
    let e : Env := { root := [L "main.json"], rootId := some (L "schemas/root.json"), files := [L "main.json"], ids := [] }
    resolveRefId e (L "other.json") = .ok (L "schemas/other.json#") ∧
      resolveRefId e (L "schemas/other.json#") = .ok (L "schemas/schemas/other.json#") := by
  decide +kernel

/-- without a root id and for a registered anchor whose value is a local path, resolving the ANSWER again gives the
answer (the part of idempotence C06 needs: the registry key of an anchor is a fixed point when it is `file#pointer`
with a plain relative file or a pointer of the current single document). -/
theorem anchor_answer_is_fixed_point (root : List Str) (files : List Str) (ids : List (Str × Str)) (i v p : Str)
    (hroot : RootOk root) (hid : isIdRef i = true) (hg : idGet ids i = some v) (hu : isUrl v = false)
    (hv : resolveRef root v = .ok p) :
    resolveRefId { root := root, rootId := none, files := files, ids := ids } i = .ok v ∧ resolveRef root p = .ok p := by
  refine ⟨?_, resolveRef_idem hroot hv⟩
  rw [resolve_idRef _ i v hid hg, urlStep_not_url _ v hu]

example : RootOk [L "main.json"] ∧ isIdRef (L "#pet") = true ∧ isUrl (L "main.json#/definitions/Pet") = false ∧
    resolveRef [L "main.json"] (L "main.json#/definitions/Pet") = .ok (L "main.json#/definitions/Pet") := by
  refine ⟨.inr (by decide), by decide, by decide, by decide⟩

end Ids

end Dcg.Props.C06
