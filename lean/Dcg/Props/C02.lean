import Dcg.Proofs.Imports
import Dcg.Proofs.ImportLedger
import Dcg.Proofs.Cover
import Dcg.Proofs.CoverOp
import Dcg.Proofs.Types
import Dcg.Proofs.ClassTie
import Dcg.Model.FieldText
import Dcg.Proofs.FieldStr
/-
C02 — emitted modules execute: every name is bound before it is needed.
Only property theorems live here; helper lemmas are in Dcg/Proofs/Imports.lean (and
Dcg/Proofs/Cover.lean for `imports_cover_hint`).
-/
namespace Dcg.Props.C02
open Dcg.Model.Types Dcg.Model.Imports Dcg.Model.HintExpr Dcg.Proofs.Imports Dcg.Proofs.Cover Dcg.Proofs.ImportLedger

/-! ### The reference-counted import set (`imports.py`) -/

/-- FULL STRENGTH, any history of `append` / `remove` / `remove_referenced_imports` whatsoever that
does not raise: a name whose counter is positive is in the set of its `from_` — `remove` never
drops a binding that some other model still counts on. -/
theorem counter_pos_present (ops : List Op) (s : State) (h : run {} ops = some s) (k : Key)
    (hk : count s k > 0) : present s k = true :=
  I1_run ops {} s I1_empty h k hk

/-- The converse and the alias clause hold for the histories the generator produces: every removal
takes back an earlier append, and a removal that takes back the last reference of an aliased name
carries that alias (`okRun`, decidable). Then: present ⇔ counter > 0, counters are never
negative, and an alias is defined only for a present name. Invariant by induction over the history. -/
theorem counter_invariant (ops : List Op) (s : State) (ok : okRun {} ops = true)
    (h : run {} ops = some s) (k : Key) :
    (present s k = true ↔ count s k > 0) ∧ count s k ≥ 0 ∧
      ((aliasOf s k).isSome = true → present s k = true) := by
  have g := Good_run ops {} s Good_empty ok h
  exact ⟨⟨g.i2 k, g.i1 k⟩, g.i4 k, g.i3 k⟩

/-- non-vacuity: two models import `typing.Optional`, one of them is removed again -/
example : okRun {} [.append [IMPORT_OPTIONAL, IMPORT_UNION], .append [IMPORT_OPTIONAL], .remove [IMPORT_OPTIONAL]] = true ∧
    (run {} [.append [IMPORT_OPTIONAL, IMPORT_UNION], .append [IMPORT_OPTIONAL], .remove [IMPORT_OPTIONAL]]).isSome = true := by
  decide

/-- The full-strength converse is FALSE of the code: `remove` before `append` leaves a name in the
set with counter 0 (the counter is a `defaultdict(int)` and goes negative silently). -/
theorem counter_invariant_full_false :
    ∃ ops s k, run {} ops = some s ∧ present s k = true ∧ count s k = 0 :=
  ⟨[.remove [IMPORT_UNION], .append [IMPORT_UNION]], _, (some typingStr, IMPORT_UNION.name), rfl, by decide, by decide⟩

/-- … and so is the alias clause: the pruning step removes by `Import(from_, import_)` without the
alias, which leaves the alias defined for a name that is gone. -/
theorem alias_stale_after_plain_remove :
    ∃ ops s k, run {} ops = some s ∧ (aliasOf s k).isSome = true ∧ present s k = false :=
  ⟨[.append [{ from_ := some ['m'], name := ['X'], alias := some ['Y'] }],
    .remove [{ from_ := some ['m'], name := ['X'] }]], _, (some ['m'], ['X']), rfl, by decide, by decide⟩

/-! ### The discipline `Parser.parse` relies on: batches are taken back only after they were filed

`Parser.parse` appends `model.imports` as one batch per model (several times: `__change_from_import`,
the final collection loop) and, for the root models that `--collapse-root-models` made superfluous,
removes `unused_model.imports` as one batch.  `okRun` above only asks that no counter goes below zero;
that is not enough (see `count_discipline_insufficient`).  `ledgerRun` (Model/Imports.lean) keeps the
ledger of the batches filed and not taken back; a history is disciplined when every batch removal finds
its batch there.  The harness records the real history of every `generate()` run of the ledger
campaign and has the driver check exactly this. -/

/-- FULL STRENGTH over disciplined histories (any length, any imports, aliases, reference paths): the
counter of every key is exactly what the batches still filed credit it with, minus the single
removals (pruning, `remove_referenced_imports`). Invariant by induction over the history. -/
theorem ledger_counts (os : List LOp) (s : State) (L : Ledger) (hl : ledgerRun {} {} os = some L)
    (h : run {} (os.map LOp.op) = some s) (k : Key) :
    count s k = (credit L.filed k : Int) - (L.debits.count k : Nat) :=
  Booked_run os {} s {} L Booked_empty hl h k

/-- … hence what `parse()` needs of the import block: an import that belongs to a batch which was
filed and never taken back (the imports of a model that survives), and that was not removed singly
(pruning removes only names that do not occur in the module text: `prune_sound`), is in the set —
whatever else was appended and taken back in between. -/
theorem ledger_filed_present (os : List LOp) (s : State) (L : Ledger) (hl : ledgerRun {} {} os = some L)
    (h : run {} (os.map LOp.op) = some s) (b : List Key) (hb : b ∈ L.filed) (k : Key) (hk : k ∈ b)
    (hd : k ∉ L.debits) : present s k = true := by
  apply counter_pos_present (os.map LOp.op) s h k
  rw [ledger_counts os s L hl h k, List.count_eq_zero_of_not_mem hd]
  have h1 := credit_ge_of_mem b k L.filed hb
  have h2 : 0 < b.count k := List.count_pos_iff.mpr hk
  omega

namespace Witness
def impC : Imp := { from_ := some ['p'], name := ['c'] }
def impR : Imp := { from_ := some ['p'], name := ['R'] }
/-- the shape of a two-level chain of root models under `--collapse-root-models`: the inner root model
files `[c, R]`, the outer one `[R]`, the surviving model `[c]` (it got the inner type); both root
models are then removed — the outer one with the imports it has NOW, `[c, R]`, which it never filed -/
def uncredited : List LOp := [.app [impC, impR], .app [impR], .app [impC], .rem [impC, impR], .rem [impC, impR]]
/-- … and what the generator really does: the outer model's present imports are filed (again) before
they are taken back -/
def credited : List LOp := [.app [impC, impR], .app [impR], .app [impC], .app [impC, impR], .rem [impC, impR], .rem [impC, impR]]
end Witness

/-- non-vacuity of `ledger_filed_present`: the disciplined history leaves `[c]` filed and `c` bound -/
example : (ledgerRun {} {} Witness.credited).isSome = true ∧ (run {} (Witness.credited.map LOp.op)).isSome = true ∧
    (∀ L, ledgerRun {} {} Witness.credited = some L → [keyOf Witness.impC] ∈ L.filed ∧ L.debits = []) := by
  refine ⟨by decide, by decide, ?_⟩
  intro L hL
  have : ledgerRun {} {} Witness.credited = some { filed := [[keyOf Witness.impC], [keyOf Witness.impR]], debits := [] } := by decide
  rw [this] at hL; cases hL; exact ⟨by simp, rfl⟩

/-- REFUTATION of "non-negative counters are discipline enough": in `Witness.uncredited` every removal
finds a positive counter (`okRun` holds, nothing raises), yet the second removal takes back a batch
that was never filed (`ledgerRun = none`) and the import `c` of the batch `[c]` that nobody took back
is gone. The ledger is what separates the two histories. -/
theorem count_discipline_insufficient :
    okRun {} (Witness.uncredited.map LOp.op) = true ∧
    (∃ s, run {} (Witness.uncredited.map LOp.op) = some s ∧ present s (keyOf Witness.impC) = false) ∧
    ledgerRun {} {} Witness.uncredited = none ∧ ledgerBreak {} {} Witness.uncredited 0 = some 4 :=
  ⟨by decide, ⟨_, rfl, by decide⟩, by decide, by decide⟩

/-! ### Pruning (`parser/base.py`: imports whose name does not occur in the code are removed) -/

/-- FULL STRENGTH: pruning never removes a name that occurs in the module text (as a substring, the
test the code uses; hence never a name the text uses). -/
theorem prune_sound (code : Str) (s s' : State) (h : prune code s = some s') (k : Key)
    (hp : present s k = true) (hu : containsSub k.2 code = true) : present s' k = true := by
  unfold prune at h
  rw [present_removeAll_other _ k s s' h, hp]
  intro i hi hk
  simp only [List.mem_map] at hi
  obtain ⟨k', hk', rfl⟩ := hi
  have h1 := unused_not_in_code code s k' hk'
  have h2 : (keyOf { from_ := k'.1, name := k'.2 : Imp }).2 = k'.2 := keyOf_snd _
  rw [hk, h2, h1] at hu
  cases hu

/-- what pruning does remove is not in the text -/
theorem prune_removes_only_unused (code : Str) (s s' : State) (h : prune code s = some s') (k : Key)
    (hp : present s k = true) (hg : present s' k = false) : containsSub k.2 code = false := by
  cases hc : containsSub k.2 code with
  | false => rfl
  | true => rw [prune_sound code s s' h k hp hc] at hg; cases hg

example : (prune "x: Optional[int]".toList (([IMPORT_OPTIONAL, IMPORT_UNION]).foldl append1 {})).map
    (fun s => (present s (keyOf IMPORT_OPTIONAL), present s (keyOf IMPORT_UNION))) = some (true, false) := by
  decide

/-! ### Per-type import derivation (`DataType.imports` / `all_imports` against `type_hint`) -/

/-- FULL STATEMENT (kept visible; FALSE of the code, see the refutation below): for every
type tree and option vector, every `typing` / `collections.abc` name written into the rendered hint
is among the imports computed for the tree. -/
def ImportsCoverHint : Prop :=
  ∀ (o : Opts) (t : DT), ∀ n ∈ namesOf (hintE o t).1, n ∈ typingNames →
    n ∈ impNames (allImports o true t)

/-- PARTIAL, by structural induction on the tree, guard by guard (`node_cover`): it holds when
(`coverOK`, decidable) no name taken from the input is itself one of the nine typing names and
dict keys are leaves — for EVERY option vector (the clause that excluded sets under
generic-container + standard-collections went with the repair of C02-F2); and the
`is_optional` flags the code's string rendering leaves are those of the structural rendering
(`flagsAgree`, decidable; it is what `typeHint_eq_print` of C13 establishes). -/
theorem imports_cover_hint_partial (o : Opts) (t : DT) (hc : coverOK o t = true)
    (hf : flagsAgree o t = true) :
    ∀ n ∈ namesOf (hintE o t).1, n ∈ typingNames → n ∈ impNames (allImports o true t) := by
  intro n hn ht
  have := cover_tree o t hc n hn ht
  rw [(imports_congr o t hf true).2] at this
  exact this

/-- Typing spelling (`use_union_operator = False`), names plain (`wfTree`, C13): the flag hypothesis
is discharged by `typeHint_typing` (C13) — the text `type_hint` writes is the printed form of the
expression whose names are covered. -/
theorem imports_cover_hint_typing (o : Opts) (ho : o.unionOp = false) (t : DT) (hw : wfTree t = true)
    (hc : coverOK o t = true) :
    (typeHint o t).1 = Dcg.Sem.Typing.print (hintE o t).1 ∧
    ∀ n ∈ namesOf (hintE o t).1, n ∈ typingNames → n ∈ impNames (allImports o true t) :=
  ⟨by rw [(Dcg.Proofs.Types.typeHint_typing o ho t hw).1],
   imports_cover_hint_partial o t hc (Dcg.Proofs.Types.flagsAgree_typing o ho t hw)⟩

/-- THE `|` SPELLING (`use_union_operator = True`), names plain (`wfTree`): the flag hypothesis is
discharged by `typeHint_operator` (C13, `re.split` at every `|`): the text `type_hint` writes is the
printed form of the structural rendering, the `is_optional` flag it leaves at every node is the
structural one (`flagsAgree_operator`, by induction on the tree), so every typing name the text
writes is among `DataType.all_imports`. -/
theorem imports_cover_hint_operator (o : Opts) (ho : o.unionOp = true) (t : DT) (hw : wfTree t = true)
    (hc : coverOK o t = true) :
    (typeHint o t).1 = Dcg.Sem.Typing.print (hintE o t).1 ∧
    ∀ n ∈ namesOf (hintE o t).1, n ∈ typingNames → n ∈ impNames (allImports o true t) :=
  ⟨by rw [(Dcg.Proofs.HintOp.typeHint_operator o ho t hw).1],
   imports_cover_hint_partial o t hc (Dcg.Proofs.CoverOp.flagsAgree_operator o ho t hw)⟩

/-- EVERY option vector (both union spellings x the four container spellings): for a tree with
plain names the flags agree — `flagsAgree` is no longer a hypothesis anywhere. -/
theorem flags_agree_all_spellings (o : Opts) (t : DT) (hw : wfTree t = true) : flagsAgree o t = true := by
  cases ho : o.unionOp with
  | false => exact Dcg.Proofs.Types.flagsAgree_typing o ho t hw
  | true => exact Dcg.Proofs.CoverOp.flagsAgree_operator o ho t hw

/-- non-vacuity (operator): `Dict[str, List[int | Literal['a'] | None]] | None`, the four container
spellings — the side conditions hold and the flag left at the inner union is the structural one -/
example : ∀ s g : Bool,
    let o : Opts := { unionOp := true, stdColl := s, genericCont := g }
    let t : DT := .mk { isOptional := true, isDict := true } (some (.mk { ty := sStr } none []))
      [.mk { isList := true } none [.mk {} none [.mk { ty := ['i', 'n', 't'], isOptional := true } none [],
         .mk { literals := [['\'', 'a', '\'']] } none []]]]
    wfTree t = true ∧ coverOK o t = true ∧ flagAfter o t = true ∧
    Dcg.Sem.Typing.sLiteral ∈ namesOf (hintE o t).1 ∧ IMPORT_LITERAL ∈ allImports o true t := by
  decide

/-- `use_union_operator = True`, NOTHING NAMED `Optional` / `Union` IS USED AND NONE IS EMITTED: for a
tree with plain names whose input names are not typing names (`coverOK`) and no node of which
carries an own `import_` named so (`ouFree`): (1) the rendered hint writes neither the name
`Optional` nor `Union`, (2) `DataType.all_imports` yields no import of that name, whatever the
flags, (3) neither does the field level (`DataModelFieldBase.imports`: `IMPORT_OPTIONAL` is appended
only `and not use_union_operator`; nullable / not required / `type_has_null` do not matter). Nothing
the `X | None` text needs is missing: (1) follows from `imports_cover_hint_operator` and (2). -/
theorem operator_no_optional_union (o : Opts) (ho : o.unionOp = true) (t : DT) (hw : wfTree t = true)
    (hc : coverOK o t = true) (hf : Dcg.Proofs.CoverOp.ouFree t = true) (fb : FieldBits) :
    (∀ n ∈ namesOf (hintE o t).1, Dcg.Proofs.CoverOp.ouName n = false) ∧
    (∀ i ∈ allImports o true t, Dcg.Proofs.CoverOp.ouName i.name = false) ∧
    (∀ i ∈ fieldImports o fb t, Dcg.Proofs.CoverOp.ouName i.name = false) := by
  have h2 := Dcg.Proofs.CoverOp.operator_imports_no_typing_union (flagAfter o) o ho t hf true
  refine ⟨?_, h2, Dcg.Proofs.CoverOp.fieldImports_operator_no_typing_union o ho fb t hf⟩
  intro n hn
  cases hou : Dcg.Proofs.CoverOp.ouName n with
  | false => rfl
  | true =>
    have hty : n ∈ typingNames := by
      simp only [Dcg.Proofs.CoverOp.ouName, Bool.or_eq_true, beq_iff_eq] at hou
      rcases hou with rfl | rfl <;> decide
    have := (imports_cover_hint_operator o ho t hw hc).2 n hn hty
    simp only [impNames, List.mem_map] at this
    obtain ⟨i, hi, rfl⟩ := this
    rw [h2 i hi] at hou; cases hou

/-- non-vacuity: an optional union inside a list of an optional field — `List[int | str | None] | None`,
not required: no `Optional`, no `Union` among the field's imports; without the operator both are -/
example :
    let t : DT := .mk { isList := true, isOptional := true } none [.mk { isOptional := true } none
      [.mk { ty := ['i', 'n', 't'] } none [], .mk { ty := sStr } none []]]
    wfTree t = true ∧ coverOK { unionOp := true } t = true ∧ Dcg.Proofs.CoverOp.ouFree t = true ∧
    impNames (fieldImports { unionOp := true } {} t) = [sList] ∧
    IMPORT_OPTIONAL ∈ fieldImports {} {} t ∧ IMPORT_UNION ∈ fieldImports {} {} t := by
  decide

/-- non-vacuity: `Optional[Dict[str, List[Union[int, Literal['a']]]]]`, all eight spellings -/
example : ∀ o : Opts,
    let t : DT := .mk { isOptional := true, isDict := true } (some (.mk { ty := sStr } none []))
      [.mk { isList := true } none [.mk { ty := ['i', 'n', 't'] } none [], .mk { literals := [['\'', 'a', '\'']] } none []]]
    coverOK o t = true ∧ flagsAgree o t = true := by
  intro o; obtain ⟨u, s, g⟩ := o
  cases u <;> cases s <;> cases g <;> decide

/-- non-vacuity on the former witness of C02-F2 (repaired): generic containers + standard
collections, a set — the side conditions hold, the hint says `FrozenSet[str]` and `FrozenSet` is
among the imports (`typing.FrozenSet`; it was `collections.abc.Set`). -/
example :
    let o : Opts := { stdColl := true, genericCont := true }
    let t : DT := .mk { isSet := true } none [.mk { ty := sStr } none []]
    coverOK o t = true ∧ flagsAgree o t = true ∧
    (typeHint o t).1 = sFrozenSet ++ ['['] ++ sStr ++ [']'] ∧
    sFrozenSet ∈ namesOf (hintE o t).1 ∧ IMPORT_FROZEN_SET ∈ allImports o true t := by
  decide

/-- REFUTATION (the one that remains): `DataType.imports` asks the dict key only for its *own* imports
(`self.dict_key.imports`, not `all_imports`): `Dict[List[int], str]` has no import of `List`. -/
theorem nested_dict_key_not_imported :
    let o : Opts := {}
    let t : DT := .mk { isDict := true } (some (.mk {} none [.mk { isList := true } none [.mk { ty := ['i', 'n', 't'] } none []]]))
      [.mk { ty := sStr } none []]
    sList ∈ namesOf (hintE o t).1 ∧ sList ∉ impNames (allImports o true t) := by
  decide

/-- the full statement is refuted by the nested dict key alone (`nested_dict_key_not_imported`) -/
theorem imports_cover_hint_full_false : ¬ ImportsCoverHint := by
  intro h
  have := h {} (.mk { isDict := true } (some (.mk {} none [.mk { isList := true } none [.mk { ty := ['i', 'n', 't'] } none []]]))
      [.mk { ty := sStr } none []])
    sList nested_dict_key_not_imported.1 (by decide)
  exact nested_dict_key_not_imported.2 this

/-! ### The module-level claim

`Model.ClassScope` is C02 on the abstract syntax of an emitted module: imports, classes (header,
members with annotation and value), aliases, footer. `WellBound cfg m` (Proofs/ClassScope) says:
every eager use — base, decorator, generic base argument, alias right-hand side, default,
`Field(...)` argument — is bound by an earlier statement (or earlier in the class body, or is a
builtin); every deferred use (annotation under the future import, body of a lambda) is bound by
some statement; no class or assignment re-binds an imported name; and no class-level binding hides
a name that a value of that class (while the body runs) or an annotation of that class (when the
evaluators of output kind `cfg.kind` resolve it in the class namespace) reads.  The harness parses
every real module of the e2e campaign into this syntax and runs `problems` on it through the
driver; it must agree with the Python analysis and with what importing the module really does
(campaign `classscope.tie`). -/

open Dcg.Model.ClassScope Dcg.Model.ClassRender Dcg.Proofs.ClassScope Dcg.Proofs.ClassRender in
/-- FULL STRENGTH: the checker the driver runs on the real modules decides exactly the statement —
`problems` finds nothing iff the module is well bound (every module, every output kind). -/
theorem problems_decide_wellBound (cfg : Cfg) (m : Module) : problems cfg m = [] ↔ WellBound cfg m :=
  problems_nil_iff cfg m

open Dcg.Model.ClassScope Dcg.Proofs.ClassScope in
/-- FULL STRENGTH, every expression, any evaluation context: an annotation or value that reads no
name carrying a member's value evaluates to what the module means (or stops at a NameError for an
unbound name, which the binding clauses exclude) — never to another type, never to an exception of
a hidden value. This is why hypothesis (ii) below suffices. -/
theorem hidden_free_is_harmless (hid bnd : Name → Bool) (e : Expr) (h : ∀ n ∈ e.names, hid n = false) :
    outcome hid bnd e = .ok ∨ outcome hid bnd e = .nameError :=
  outcome_of_clean hid bnd e h

open Dcg.Model.ClassScope Dcg.Model.ClassRender Dcg.Proofs.ClassScope Dcg.Proofs.ClassRender in
/-- FULL STATEMENT (kept visible; FALSE of the code, see `member_named_Optional_hides` and
`default_uses_later_class_unbound`): every module the generator lays out is well bound for every
output kind. -/
def ModuleWellBound : Prop := ∀ (cfg : Cfg) (g : GModule), CoverOK cfg.builtins g → FooterOK g → WellBound cfg (render g)

open Dcg.Model.ClassScope Dcg.Model.ClassRender Dcg.Proofs.ClassScope Dcg.Proofs.ClassRender in
/-- PARTIAL: a module laid out as `Parser.parse` does — import block, classes in the order the
sort left them, forward-reference footer — is well bound for EVERY output kind under four decidable
side conditions: (i) `CoverOK`: imports, the module's classes and builtins cover every name of every
rendered hint (`hint_typing_names_imported` gives the typing names); (ii) `MembersDisjoint`: no
member that has a value is named like a name an annotation or a value of its class reads — FALSE
of the generator, `member_named_Optional_hides`; (iii) `OrderOK`: decorators, bases, defaults and
`Field(...)` arguments use imported names, builtins or classes written earlier
(`bases_bound_by_sort` gives the bases; false for enum defaults and alias right-hand sides, known
findings C02-F3/F4, `default_uses_later_class_unbound`); (iv) the footer names classes of the
module and no class is named like an import. -/
theorem module_well_bound_partial (cfg : Cfg) (g : GModule) (hc : CoverOK cfg.builtins g)
    (hd : MembersDisjoint g) (ho : OrderOK cfg.builtins g) (hf : FooterOK g) (hr : NoClassRebinds g) :
    WellBound cfg (render g) :=
  wellBound_render cfg g hc hd ho hf hr

open Dcg.Model.ClassScope Dcg.Model.ClassRender Dcg.Proofs.ClassScope Dcg.Proofs.ClassRender in
/-- … and the side conditions are decidable: `sideOK` computes them. -/
theorem module_well_bound_of_sideOK (cfg : Cfg) (g : GModule) (h : sideOK cfg.builtins g = true) :
    WellBound cfg (render g) :=
  wellBound_of_sideOK cfg g h

namespace Witness
open Dcg.Model.ClassScope Dcg.Model.ClassRender
open Dcg.Sem.Typing (TExpr sOptional)

def builtins : List Name := ["None".toList, "str".toList, "int".toList]
def nModel : Name := "Model".toList
def nOptional : Name := "Optional".toList
def nList : Name := "List".toList
def nBaseModel : Name := "BaseModel".toList

/-- `Optional: Optional[str] = None` -/
def mOptional : GMember := { name := nOptional, hint := .app sOptional [.atom "str".toList], value := some .lit }
def cOptional : GClass :=
  { name := nModel, decorators := [], bases := [nBaseModel],
    members := [mOptional, { name := "x".toList, hint := .app sOptional [.atom "int".toList], value := some .lit }] }

/-- `class Model(BaseModel): Optional: Optional[str] = None; x: Optional[int] = None` -/
def gOptional : GModule :=
  { imports := ["annotations".toList, nOptional, nBaseModel], classes := [cOptional], footer := [] }

/-- the same with the member required: `Optional: str` binds nothing -/
def gOptionalRequired : GModule :=
  { imports := ["annotations".toList, nOptional, nBaseModel]
    classes := [{ name := nModel, decorators := [], bases := [nBaseModel],
                  members := [{ name := nOptional, hint := .atom "str".toList, value := none },
                              { name := "x".toList, hint := .app sOptional [.atom "int".toList], value := some .lit }] }]
    footer := [] }

/-- two classes, a reference, a `Field(...)` call, a footer line -/
def gPets : GModule :=
  { imports := ["annotations".toList, nOptional, nList, nBaseModel, "Field".toList]
    classes := [{ name := "Pet".toList, decorators := [], bases := [nBaseModel],
                  members := [{ name := "name".toList, hint := .atom "str".toList, value := none },
                              { name := "tag".toList, hint := .app sOptional [.atom "str".toList], value := some .lit }] },
                { name := nModel, decorators := [], bases := [nBaseModel],
                  members := [{ name := "pets".toList, hint := .app sOptional [.app nList [.atom "Pet".toList]], value := some .lit },
                              { name := "x_y".toList, hint := .app sOptional [.atom "int".toList],
                                value := some (.call (.name "Field".toList) [.lit, .lit]) }] }]
    footer := [nModel] }

/-- known finding C02-F4 (`--keep-model-order`): `class Doc: name: Optional[Name] = Name.x` before `class Name(Enum)` -/
def gEnumDefault : GModule :=
  { imports := ["annotations".toList, nOptional, "Enum".toList, "dataclass".toList]
    classes := [{ name := "Doc".toList, decorators := ["dataclass".toList], bases := [],
                  members := [{ name := "name".toList, hint := .app sOptional [.atom "Name".toList],
                                value := some (.attr (.name "Name".toList)) }] },
                { name := "Name".toList, decorators := [], bases := ["Enum".toList], members := [] }]
    footer := [] }
end Witness

open Dcg.Model.ClassScope Dcg.Model.ClassRender Dcg.Proofs.ClassScope Dcg.Proofs.ClassRender Witness in
/-- non-vacuity of `module_well_bound_partial`: the side conditions hold of a module with a class
reference, a `Field(...)` call and a footer, and of the required-member variant of the witness below -/
example : sideOK builtins gPets = true ∧ sideOK builtins gOptionalRequired = true := by decide

open Dcg.Model.ClassScope Dcg.Model.ClassRender Dcg.Proofs.ClassScope Dcg.Proofs.ClassRender Witness in
/-- REFUTATION of hypothesis (ii) and of `ModuleWellBound` (known findings C02-F6/F9): the module
`class Model(BaseModel): Optional: Optional[str] = None; x: Optional[int] = None` satisfies (i),
(iii), (iv) but the member `Optional` hides the typing construct for both annotations: for
pydantic v2 and for dataclass consumers the evaluation subscripts the member's value
(`exception`); pydantic v1 evaluates in the module's globals and is well bound; with the member
required (`Optional: str`) nothing is bound and every kind is well bound. -/
theorem member_named_Optional_hides :
    coverOKb builtins gOptional = true ∧ orderOKb gOptional.imports builtins gOptional.classes [] = true ∧
    ¬ MembersDisjoint gOptional ∧
    problems ⟨.pydV2, builtins⟩ (render gOptional) =
      [.hides nModel nOptional nOptional .creation .exception, .hides nModel "x".toList nOptional .creation .exception] ∧
    ¬ WellBound ⟨.pydV2, builtins⟩ (render gOptional) ∧ ¬ WellBound ⟨.dataclass, builtins⟩ (render gOptional) ∧
    WellBound ⟨.pydV1, builtins⟩ (render gOptional) ∧
    (∀ k, WellBound ⟨k, builtins⟩ (render gOptionalRequired)) := by
  refine ⟨by decide, by decide, ?_, by decide, ?_, ?_, ?_, ?_⟩
  · intro h
    have := h cOptional (by simp [gOptional]) mOptional (by simp [cOptional]) rfl mOptional (by simp [cOptional])
    exact this.1 (by decide)
  · rw [← problems_nil_iff]; decide
  · rw [← problems_nil_iff]; decide
  · rw [← problems_nil_iff]; decide
  · intro k
    exact wellBound_of_sideOK ⟨k, builtins⟩ gOptionalRequired (by show sideOK builtins gOptionalRequired = true; decide)

theorem module_well_bound_full_false : ¬ ModuleWellBound := by
  intro h
  have := h ⟨.pydV2, Witness.builtins⟩ Witness.gOptional
    (Dcg.Proofs.ClassRender.coverOK_of_b _ _ (by decide)) (by intro n hn; cases hn)
  exact member_named_Optional_hides.2.2.2.2.1 this

open Dcg.Model.ClassScope Dcg.Model.ClassRender Dcg.Proofs.ClassScope Dcg.Proofs.ClassRender Witness in
/-- REFUTATION of hypothesis (iii) (known finding C02-F4): a default that is an enum member is
evaluated when the class body runs; when the enum class is written later (`--keep-model-order`
only repairs the order for base classes) the name is unbound: `order`, in every output kind. -/
theorem default_uses_later_class_unbound :
    orderOKb gEnumDefault.imports builtins gEnumDefault.classes [] = false ∧
    ∀ k, problems ⟨k, builtins⟩ (render gEnumDefault) = [.order "Name".toList] := by
  refine ⟨by decide, ?_⟩
  intro k
  cases k <;> decide

open Dcg.Model.ClassRender Dcg.Proofs.ClassTie Dcg.Model.ClassScope in
/-- Hypothesis (i), typing names: for a member whose hint is the structural rendering of a type tree
(`hintE`), every typing / collections.abc name the annotation reads is among the imports
`DataType.all_imports` yields — under the side conditions of `imports_cover_hint_partial`. -/
theorem hint_typing_names_imported (o : Opts) (t : DT) (hc : coverOK o t = true) (hf : flagsAgree o t = true) :
    ∀ n ∈ (ofT (hintE o t).1).names, n ∈ typingNames → n ∈ impNames (allImports o true t) :=
  fun n hn ht => imports_cover_hint_partial o t hc hf n (names_ofT_subset _ n hn) ht

open Dcg.Model.ClassRender Dcg.Model.Sort Dcg.Model.ClassScope in
/-- Hypothesis (iii), base classes: when the classes are written in the order `sort_data_models`
returns (C11 `sort_base_before_derived`), every base-class name is bound by an earlier class
statement. -/
theorem bases_bound_by_sort (rc : Nat) (ms : List Dcg.Model.Sort.Model) (out : Out)
    (hd : Dcg.Props.C11.DistinctPaths ms) (hwf : ∀ m ∈ ms, Dcg.Proofs.Sort.WF m)
    (h : sortDataModels rc ms = .ok out) (nm : Path → Name) (mk : Dcg.Model.Sort.Model → GClass)
    (hname : ∀ m, (mk m).name = nm m.path) (hbases : ∀ m, (mk m).bases = m.bases.map nm) :
    ∀ pre c post, out.sorted.map mk = pre ++ c :: post → ∀ b ∈ c.bases, b ∈ pre.map (·.name) :=
  Dcg.Proofs.ClassTie.bases_precede_of_sort rc ms out hd hwf h nm mk hname hbases

/-- FULL STRENGTH over the model's space (every combination of the five facts): the names the class
template writes for a pydantic member besides its type hint — `Field` for `= Field(...)`, `Annotated`
and `Field` for `Annotated[<hint>, Field(...)]` — are yielded by the member's own `.imports`: both
are decided from the same text `str(self)`. (The seeded regression C02-a breaks exactly this
coupling in the dataclass field class; campaign `field/model imports vs rendered text` tests it on
the real classes of all five kinds.) -/
theorem field_imports_cover (v : Dcg.Model.FieldText.V) :
    ∀ n ∈ Dcg.Model.FieldText.memberUses v, n ∈ Dcg.Model.FieldText.imports v := by
  obtain ⟨a, e, f, u, k⟩ := v
  cases a <;> cases e <;> cases f <;> cases u <;> cases k <;> decide

/-! ### `DataModelField.__str__` of the five field classes: the names its text reads are bound

`Model.FieldStr` computes, from an abstract field state (required, nullable, default kind, is any
keyword argument written, `use_annotated`, `use_default_kwarg`, what `default_factory` is, …), the
shape of `str(field)` and the names it reads, `.field` / `.annotated`, the library part of `.imports`
and the member branch of the class template. The three facts `Model.FieldText` used to read off the
real text are now computed (`Pyd.toV`). Campaign `field/model imports vs rendered text` compares
every function with the real field objects of all five kinds. -/

open Dcg.Model.FieldStr Dcg.Proofs.FieldStr in
/-- pydantic v1-style and v2, EVERY field state: every name the class template writes for the member
besides its type hint — `Field`, `Annotated`, and what a `default_factory=` argument names — is
among the library imports of the same field (`IMPORT_FIELD`, `IMPORT_ANNOTATED`) or is the factory
itself (data: the text of `extras["default_factory"]`, or the class of the member's type in
`lambda :Cls.parse_obj(...)`; bound as a builtin / by class order, hypotheses (i)/(iii) above). -/
theorem pydantic_field_names_bound (s : Pyd) :
    ∀ n ∈ Pyd.memberNames s, n ∈ Pyd.imports s ∨ n ∈ (Pyd.factory s).names :=
  Dcg.Proofs.FieldStr.pyd_bound s

open Dcg.Model.FieldStr Dcg.Proofs.FieldStr in
/-- non-vacuity: `Field(default_factory=lambda :Pet.parse_obj({'a': 1}), alias='x')` reads `Field`
and `Pet`; `Field` is imported, `Pet` is the factory's class. With `use_annotated` the same state
writes `Annotated[…, Field(alias='x')]`: the factory is not written at all. -/
example :
    let s : Pyd := { required := false, nullable := false, useAnnotated := false, useDefaultKwarg := false, otherArgs := true, keyBeforeFactory := true, defaultNotNone := true, extrasFactory := none, modelFactory := some ['P', 'e', 't'] }
    Pyd.str s = ⟨.call .factory, [Dcg.Model.FieldText.nField, ['P', 'e', 't']]⟩ ∧
    Pyd.imports s = [Dcg.Model.FieldText.nField] ∧
    Pyd.memberNames { s with useAnnotated := true } = [Dcg.Model.FieldText.nAnnotated, Dcg.Model.FieldText.nField] ∧
    Pyd.imports { s with useAnnotated := true } = [Dcg.Model.FieldText.nField, Dcg.Model.FieldText.nAnnotated] := by
  decide

open Dcg.Model.FieldStr Dcg.Proofs.FieldStr in
/-- dataclasses, EVERY field state: `field(...)` is written exactly when `dataclasses.field` is among
the member's imports (the coupling the seeded regression C02-a breaks); the only other name the text
reads is a `default_factory` out of `extras`. A bare `repr(default)` reads no name. -/
theorem dataclass_field_names_bound (s : Dc) :
    ∀ n ∈ Dc.memberNames s, n ∈ Dc.imports s ∨ n ∈ (Dc.factory s).toList :=
  Dcg.Proofs.FieldStr.dc_bound s

open Dcg.Model.FieldStr Dcg.Proofs.FieldStr in
/-- non-vacuity: a list default becomes `field(default_factory=lambda :['a'])`: `field` is read and imported -/
example :
    let s : Dc := { required := false, defaultSet := true, defaultListOrDict := true, extrasFactory := none, otherKeys := false }
    Dc.memberNames s = [nfield] ∧ Dc.imports s = [nfield] ∧
    Dc.memberNames { s with defaultListOrDict := false } = [] ∧ Dc.imports { s with required := true } = [] := by
  decide

open Dcg.Model.FieldStr Dcg.Proofs.FieldStr in
/-- FULL STATEMENT for msgspec (kept visible; FALSE of the code, `msgspec_annotated_optional_unbound`) -/
def MsgspecFieldNamesBound : Prop :=
  ∀ s : Ms, ∀ n ∈ Ms.memberNames s, n ∈ Ms.imports s ∨ n ∈ (Ms.factory s).names ∨ n = nList

open Dcg.Model.FieldStr Dcg.Proofs.FieldStr in
/-- msgspec, PARTIAL: under `msOptionalOK` (decidable: NOT (`.annotated` is written, the member is not
required, not a class variable, typing spelling, and `nullable == False`) — `.annotated` wraps in
`Optional[…]` by requiredness, `.imports` asks for `Optional` by nullability) every name the member's `field(...)` and its
`Annotated[…, Meta(…)]` / `Optional[…]` / `ClassVar[…]` wrapper read — `field`, `convert`, `Meta`,
`Annotated`, `Optional`, `ClassVar` — is among the imports of the same field (`import_extender` and
the base class), or is the factory (the text out of `extras`, the struct class in
`lambda: convert(…, type=Cls)`), or the builtin `list`. -/
theorem msgspec_field_names_bound_partial (s : Ms) (h : msOptionalOK s = true) :
    ∀ n ∈ Ms.memberNames s, n ∈ Ms.imports s ∨ n ∈ (Ms.factory s).names ∨ n = nList :=
  Dcg.Proofs.FieldStr.ms_bound s h

open Dcg.Model.FieldStr Dcg.Proofs.FieldStr in
/-- non-vacuity: `v: Optional[Annotated[List[Pet], Meta(description='d')]] = field(default_factory=lambda: convert([…], type=list[Pet]), name='x')`,
nullable by default: the hypothesis holds, six library names are read and imported -/
example :
    let s : Ms := { required := false, hasAlias := true, defaultSet := true, defaultTruthy := true, extrasFactory := none, structFactory := some ['P', 'e', 't'], structList := true, useAnnotated := true, hasMeta := true, classVar := false, nullable := none, typeHasNull := false, unionOp := false }
    msOptionalOK s = true ∧
    Ms.memberNames s = [Dcg.Model.FieldText.nAnnotated, nMeta, nOptional, nfield, nConvert, nList, ['P', 'e', 't']] ∧
    Ms.imports s = [nOptional, Dcg.Model.FieldText.nAnnotated, nfield, nConvert, nMeta] := by
  decide

open Dcg.Model.FieldStr Dcg.Proofs.FieldStr in
/-- REFUTATION (known finding C02-F11, replayed on the real code by its witness document): a member that
is not required, has a `Meta(...)` argument and is declared not nullable (`--strict-nullable` with a
default) is written `Optional[Annotated[…]]`, and `Optional` is not among its imports. -/
theorem msgspec_annotated_optional_unbound :
    let s : Ms := { required := false, hasAlias := false, defaultSet := true, defaultTruthy := true, extrasFactory := none, structFactory := none, structList := false, useAnnotated := true, hasMeta := true, classVar := false, nullable := some false, typeHasNull := false, unionOp := false }
    nOptional ∈ Ms.memberNames s ∧ nOptional ∉ Ms.imports s ∧ nOptional ∉ (Ms.factory s).names ∧ msOptionalOK s = false := by
  decide

open Dcg.Model.FieldStr Dcg.Proofs.FieldStr in
theorem msgspec_field_names_bound_full_false : ¬ MsgspecFieldNamesBound := by
  intro h
  have hw := msgspec_annotated_optional_unbound
  rcases h _ nOptional hw.1 with h1 | h1 | h1
  · exact hw.2.1 h1
  · exact hw.2.2.1 h1
  · exact absurd h1 (by decide)

open Dcg.Model.FieldStr Dcg.Proofs.FieldStr in
/-- TypedDict: `NotRequired[…]` is written exactly when `typing.NotRequired` is among the imports -/
theorem typeddict_field_names_bound (s : Td) : ∀ n ∈ Td.memberNames s, n ∈ Td.imports s := by
  intro n hn; exact hn

/-!
What remains outside the theorems (tested end-to-end on every run): that the real import block
contains what the field and model classes ask for (`Field`, `Annotated`, base classes,
`DEFAULT_IMPORTS`: the aggregation over models), `__alias_shadowed_imports` /
`__change_field_name` (what they do is observed through hypothesis (ii) on the real modules), and
the libraries' own resolution. -/

end Dcg.Props.C02
