import Dcg.Proofs.Imports
import Dcg.Proofs.Cover
import Dcg.Proofs.Types
/-
C02 — emitted modules execute: every name is bound before it is needed.
Only property theorems live here; helper lemmas are in Dcg/Proofs/Imports.lean (and
Dcg/Proofs/Cover.lean for `imports_cover_hint`).
-/
namespace Dcg.Props.C02
open Dcg.Model.Types Dcg.Model.Imports Dcg.Model.HintExpr Dcg.Proofs.Imports Dcg.Proofs.Cover

/-! ### The reference-counted import set (`imports.py`) -/

/-- FULL STRENGTH, any history of `append` / `remove` / `remove_referenced_imports` whatsoever that
does not raise: a name whose counter is positive is in the set of its `from_` — `remove` never
drops a binding that some other model still counts on. -/
theorem counter_pos_present (ops : List Op) (s : State) (h : run {} ops = some s) (k : Key)
    (hk : count s k > 0) : present s k = true :=
  I1_run ops {} s I1_empty h k hk

/-- The converse and the alias clause hold for the histories the generator produces: every removal
takes back an earlier append, and a removal that takes back the last reference of an aliased name
carries that alias (`okRun`, decidable). Then: present ⇔ counter > 0, counters are never
negative, and an alias is defined only for a present name. Invariant by induction over the history. -/
theorem counter_invariant (ops : List Op) (s : State) (ok : okRun {} ops = true)
    (h : run {} ops = some s) (k : Key) :
    (present s k = true ↔ count s k > 0) ∧ count s k ≥ 0 ∧
      ((aliasOf s k).isSome = true → present s k = true) := by
  have g := Good_run ops {} s Good_empty ok h
  exact ⟨⟨g.i2 k, g.i1 k⟩, g.i4 k, g.i3 k⟩

/-- non-vacuity: two models import `typing.Optional`, one of them is removed again -/
example : okRun {} [.append [IMPORT_OPTIONAL, IMPORT_UNION], .append [IMPORT_OPTIONAL], .remove [IMPORT_OPTIONAL]] = true ∧
    (run {} [.append [IMPORT_OPTIONAL, IMPORT_UNION], .append [IMPORT_OPTIONAL], .remove [IMPORT_OPTIONAL]]).isSome = true := by
  decide

/-- The full-strength converse is FALSE of the code: `remove` before `append` leaves a name in the
set with counter 0 (the counter is a `defaultdict(int)` and goes negative silently). -/
theorem counter_invariant_full_false :
    ∃ ops s k, run {} ops = some s ∧ present s k = true ∧ count s k = 0 :=
  ⟨[.remove [IMPORT_UNION], .append [IMPORT_UNION]], _, (some typingStr, IMPORT_UNION.name), rfl, by decide, by decide⟩

/-- … and so is the alias clause: the pruning step removes by `Import(from_, import_)` without the
alias, which leaves the alias defined for a name that is gone. -/
theorem alias_stale_after_plain_remove :
    ∃ ops s k, run {} ops = some s ∧ (aliasOf s k).isSome = true ∧ present s k = false :=
  ⟨[.append [{ from_ := some ['m'], name := ['X'], alias := some ['Y'] }],
    .remove [{ from_ := some ['m'], name := ['X'] }]], _, (some ['m'], ['X']), rfl, by decide, by decide⟩

/-! ### Pruning (`parser/base.py`: imports whose name does not occur in the code are removed) -/

/-- FULL STRENGTH: pruning never removes a name that occurs in the module text (as a substring, the
test the code uses; hence never a name the text uses). -/
theorem prune_sound (code : Str) (s s' : State) (h : prune code s = some s') (k : Key)
    (hp : present s k = true) (hu : containsSub k.2 code = true) : present s' k = true := by
  unfold prune at h
  rw [present_removeAll_other _ k s s' h, hp]
  intro i hi hk
  simp only [List.mem_map] at hi
  obtain ⟨k', hk', rfl⟩ := hi
  have h1 := unused_not_in_code code s k' hk'
  have h2 : (keyOf { from_ := k'.1, name := k'.2 : Imp }).2 = k'.2 := keyOf_snd _
  rw [hk, h2, h1] at hu
  cases hu

/-- what pruning does remove is not in the text -/
theorem prune_removes_only_unused (code : Str) (s s' : State) (h : prune code s = some s') (k : Key)
    (hp : present s k = true) (hg : present s' k = false) : containsSub k.2 code = false := by
  cases hc : containsSub k.2 code with
  | false => rfl
  | true => rw [prune_sound code s s' h k hp hc] at hg; cases hg

example : (prune "x: Optional[int]".toList (([IMPORT_OPTIONAL, IMPORT_UNION]).foldl append1 {})).map
    (fun s => (present s (keyOf IMPORT_OPTIONAL), present s (keyOf IMPORT_UNION))) = some (true, false) := by
  decide

/-! ### Per-type import derivation (`DataType.imports` / `all_imports` against `type_hint`) -/

/-- FULL STATEMENT (kept visible; FALSE of the code, see the two refutations below): for every
type tree and option vector, every `typing` / `collections.abc` name written into the rendered hint
is among the imports computed for the tree. -/
def ImportsCoverHint : Prop :=
  ∀ (o : Opts) (t : DT), ∀ n ∈ namesOf (hintE o t).1, n ∈ typingNames →
    n ∈ impNames (allImports o true t)

/-- PARTIAL, by structural induction on the tree, guard by guard (`node_cover`): it holds when
(`coverOK`, decidable) no name taken from the input is itself one of the nine typing names, no
node is a set under generic-container + standard-collections, dict keys are leaves; and the
`is_optional` flags the code's string rendering leaves are those of the structural rendering
(`flagsAgree`, decidable; it is what `typeHint_eq_print` of C13 establishes). -/
theorem imports_cover_hint_partial (o : Opts) (t : DT) (hc : coverOK o t = true)
    (hf : flagsAgree o t = true) :
    ∀ n ∈ namesOf (hintE o t).1, n ∈ typingNames → n ∈ impNames (allImports o true t) := by
  intro n hn ht
  have := cover_tree o t hc n hn ht
  rw [(imports_congr o t hf true).2] at this
  exact this

/-- Typing spelling (`use_union_operator = False`), names plain (`wfTree`, C13): the flag hypothesis
is discharged by `typeHint_typing` (C13) — the text `type_hint` writes is the printed form of the
expression whose names are covered. -/
theorem imports_cover_hint_typing (o : Opts) (ho : o.unionOp = false) (t : DT) (hw : wfTree t = true)
    (hc : coverOK o t = true) :
    (typeHint o t).1 = Dcg.Sem.Typing.print (hintE o t).1 ∧
    ∀ n ∈ namesOf (hintE o t).1, n ∈ typingNames → n ∈ impNames (allImports o true t) :=
  ⟨by rw [(Dcg.Proofs.Types.typeHint_typing o ho t hw).1],
   imports_cover_hint_partial o t hc (Dcg.Proofs.Types.flagsAgree_typing o ho t hw)⟩

/-- non-vacuity: `Optional[Dict[str, List[Union[int, Literal['a']]]]]`, all eight spellings -/
example : ∀ o : Opts,
    let t : DT := .mk { isOptional := true, isDict := true } (some (.mk { ty := sStr } none []))
      [.mk { isList := true } none [.mk { ty := ['i', 'n', 't'] } none [], .mk { literals := [['\'', 'a', '\'']] } none []]]
    coverOK o t = true ∧ flagsAgree o t = true := by
  intro o; obtain ⟨u, s, g⟩ := o
  cases u <;> cases s <;> cases g <;> decide

/-- REFUTATION 1 (known finding C02-F2): generic containers + standard collections, a set: the hint
says `FrozenSet[str]`, the import set has `collections.abc.Set`. -/
theorem frozenset_not_imported :
    let o : Opts := { stdColl := true, genericCont := true }
    let t : DT := .mk { isSet := true } none [.mk { ty := sStr } none []]
    (typeHint o t).1 = sFrozenSet ++ ['['] ++ sStr ++ [']'] ∧
    sFrozenSet ∈ namesOf (hintE o t).1 ∧ sFrozenSet ∉ impNames (allImports o true t) := by
  decide

/-- REFUTATION 2: `DataType.imports` asks the dict key only for its *own* imports
(`self.dict_key.imports`, not `all_imports`): `Dict[List[int], str]` has no import of `List`. -/
theorem nested_dict_key_not_imported :
    let o : Opts := {}
    let t : DT := .mk { isDict := true } (some (.mk {} none [.mk { isList := true } none [.mk { ty := ['i', 'n', 't'] } none []]]))
      [.mk { ty := sStr } none []]
    sList ∈ namesOf (hintE o t).1 ∧ sList ∉ impNames (allImports o true t) := by
  decide

theorem imports_cover_hint_full_false : ¬ ImportsCoverHint := by
  intro h
  have := h { stdColl := true, genericCont := true } (.mk { isSet := true } none [.mk { ty := sStr } none []])
    sFrozenSet (by decide) (by decide)
  exact absurd this (by decide)

/-! ### The module-level claim

`module_well_bound` (FULL, not proved): for every supported input and option vector, in every
emitted module (a) each eager use — base class, decorator, subscripted generic base, alias
right-hand side, default, `Field(...)` argument — is bound by an earlier statement; (b) each name
of an annotation is bound by some statement of the module or is a builtin; (c) no class or member
re-binds a name the module needs; (d) every model's forward references resolve.

What this file proves of it: the import *set* mechanics (`counter_pos_present`,
`counter_invariant`), that pruning only ever drops names that do not occur in the text
(`prune_sound`), and that the per-type derivation covers what `type_hint` writes
(`imports_cover_hint_partial`).  Not modelled, hence only tested end-to-end on every run
(campaign `e2e`: import the module, resolve forward references, static scope analysis): the
aggregation over models and fields (`Field`, `Annotated`, base-class and `DEFAULT_IMPORTS`), the
ordering of definitions (C11), `__alias_shadowed_imports` / `__change_field_name`, the
forward-reference footer.  Refuted on the pinned tree by the known findings C02-F1 … F4. -/

end Dcg.Props.C02
