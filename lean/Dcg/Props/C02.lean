import Dcg.Model.Imports
namespace Dcg.Props.C02
open Dcg.Model.Types Dcg.Model.Imports

theorem stub : count {} (none, []) = 0 := by decide

end Dcg.Props.C02
