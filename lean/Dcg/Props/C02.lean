import Dcg.Proofs.Imports
/-
C02 — emitted modules execute: every name is bound before it is needed.
Only property theorems live here; helper lemmas are in Dcg/Proofs/Imports.lean (and
Dcg/Proofs/Cover.lean for `imports_cover_hint`).
-/
namespace Dcg.Props.C02
open Dcg.Model.Types Dcg.Model.Imports Dcg.Proofs.Imports

/-! ### The reference-counted import set (`imports.py`) -/

/-- FULL STRENGTH, any history of `append` / `remove` / `remove_referenced_imports` whatsoever that
does not raise: a name whose counter is positive is in the set of its `from_` — `remove` never
drops a binding that some other model still counts on. -/
theorem counter_pos_present (ops : List Op) (s : State) (h : run {} ops = some s) (k : Key)
    (hk : count s k > 0) : present s k = true :=
  I1_run ops {} s I1_empty h k hk

/-- The converse and the alias clause hold for the histories the generator produces: every removal
takes back an earlier append, and a removal that takes back the last reference of an aliased name
carries that alias (`okRun`, decidable). Then: present ⇔ counter > 0, counters are never
negative, and an alias is defined only for a present name. Invariant by induction over the history. -/
theorem counter_invariant (ops : List Op) (s : State) (ok : okRun {} ops = true)
    (h : run {} ops = some s) (k : Key) :
    (present s k = true ↔ count s k > 0) ∧ count s k ≥ 0 ∧
      ((aliasOf s k).isSome = true → present s k = true) := by
  have g := Good_run ops {} s Good_empty ok h
  exact ⟨⟨g.i2 k, g.i1 k⟩, g.i4 k, g.i3 k⟩

/-- non-vacuity: two models import `typing.Optional`, one of them is removed again -/
example : okRun {} [.append [IMPORT_OPTIONAL, IMPORT_UNION], .append [IMPORT_OPTIONAL], .remove [IMPORT_OPTIONAL]] = true ∧
    (run {} [.append [IMPORT_OPTIONAL, IMPORT_UNION], .append [IMPORT_OPTIONAL], .remove [IMPORT_OPTIONAL]]).isSome = true := by
  decide

/-- The full-strength converse is FALSE of the code: `remove` before `append` leaves a name in the
set with counter 0 (the counter is a `defaultdict(int)` and goes negative silently). -/
theorem counter_invariant_full_false :
    ∃ ops s k, run {} ops = some s ∧ present s k = true ∧ count s k = 0 :=
  ⟨[.remove [IMPORT_UNION], .append [IMPORT_UNION]], _, (some typingStr, IMPORT_UNION.name), rfl, by decide, by decide⟩

/-- … and so is the alias clause: the pruning step removes by `Import(from_, import_)` without the
alias, which leaves the alias defined for a name that is gone. -/
theorem alias_stale_after_plain_remove :
    ∃ ops s k, run {} ops = some s ∧ (aliasOf s k).isSome = true ∧ present s k = false :=
  ⟨[.append [{ from_ := some ['m'], name := ['X'], alias := some ['Y'] }],
    .remove [{ from_ := some ['m'], name := ['X'] }]], _, (some ['m'], ['X']), rfl, by decide, by decide⟩

/-! ### Pruning (`parser/base.py`: imports whose name does not occur in the code are removed) -/

/-- FULL STRENGTH: pruning never removes a name that occurs in the module text (as a substring, the
test the code uses; hence never a name the text uses). -/
theorem prune_sound (code : Str) (s s' : State) (h : prune code s = some s') (k : Key)
    (hp : present s k = true) (hu : containsSub k.2 code = true) : present s' k = true := by
  unfold prune at h
  rw [present_removeAll_other _ k s s' h, hp]
  intro i hi hk
  simp only [List.mem_map] at hi
  obtain ⟨k', hk', rfl⟩ := hi
  have h1 := unused_not_in_code code s k' hk'
  have h2 : (keyOf { from_ := k'.1, name := k'.2 : Imp }).2 = k'.2 := keyOf_snd _
  rw [hk, h2, h1] at hu
  cases hu

/-- what pruning does remove is not in the text -/
theorem prune_removes_only_unused (code : Str) (s s' : State) (h : prune code s = some s') (k : Key)
    (hp : present s k = true) (hg : present s' k = false) : containsSub k.2 code = false := by
  cases hc : containsSub k.2 code with
  | false => rfl
  | true => rw [prune_sound code s s' h k hp hc] at hg; cases hg

example : (prune "x: Optional[int]".toList (([IMPORT_OPTIONAL, IMPORT_UNION]).foldl append1 {})).map
    (fun s => (present s (keyOf IMPORT_OPTIONAL), present s (keyOf IMPORT_UNION))) = some (true, false) := by
  decide

end Dcg.Props.C02
