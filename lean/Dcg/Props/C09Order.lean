import Dcg.Proofs.ParsePasses
import Dcg.Gen.ParsePasses
/-
Helper definitions for the section "order of the post-passes of Parser.parse" of Dcg/Props/C09.lean
(the theorems are there: the runner counts the theorems of Props/C09.lean). Concrete states used as witnesses.
-/
namespace Dcg.Props.C09Order
open Dcg.Model.ParsePasses

/-- the passes of the per-module loop of `Parser.parse` as the code has them now -/
def realPasses : List Pass := Dcg.Gen.ParsePasses.calls.map (·.pass)

/-- two Enum models that render alike (classes 1 and 2, one key), a field on each with a raw default -/
def dupState : St :=
  { classes := [⟨1, 7⟩, ⟨2, 7⟩], roots := [],
    fields := [⟨.enum 1, .raw 0⟩, ⟨.enum 2, .raw 1⟩] }

/-- an enum behind a root model (root 5 around class 1, the definition carries the default 3): one field with its own default,
one that only inherits the root's -/
def rootState : St :=
  { classes := [⟨1, 7⟩], roots := [⟨5, 1, some 3⟩],
    fields := [⟨.root 5, .raw 0⟩, ⟨.root 5, .none⟩] }

/-- two Enum models that render alike, the second one behind root 5 -/
def dupRootState : St :=
  { classes := [⟨1, 7⟩, ⟨2, 7⟩], roots := [⟨5, 2, none⟩],
    fields := [⟨.enum 1, .raw 0⟩, ⟨.root 5, .raw 1⟩] }

/-- both at once, plus a near-duplicate (class 3, another key) that must stay -/
def mixedState : St :=
  { classes := [⟨1, 7⟩, ⟨2, 7⟩, ⟨3, 8⟩], roots := [⟨5, 2, some 3⟩, ⟨6, 3, none⟩],
    fields := [⟨.enum 1, .raw 0⟩, ⟨.enum 2, .raw 1⟩, ⟨.root 5, .none⟩, ⟨.root 6, .raw 4⟩, ⟨.enum 3, .none⟩] }

def allOn : Opts := ⟨true, true, true⟩

end Dcg.Props.C09Order
