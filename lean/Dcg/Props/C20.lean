import Dcg.Proofs.Write
import Dcg.Gen.GenerateSteps
/-
C20 — a failed run leaves existing output untouched and the process where it was.
Only property theorems live here; helper lemmas are in Dcg/Proofs/Write.lean.

`pre`, `loopBody`, `post`, `chdirNone`, `chdirSome` are regenerated from the `ast` of
`generate()` / `chdir()` on every run; `run` (Dcg/Model/Write) executes them on a file system
(path ↦ contents, working directory) with an arbitrary fault oracle: any may-raise step may fail.
-/
namespace Dcg.Props.C20
open Dcg.Model.Write Dcg.Proofs.Write Dcg.Gen.GenerateSteps

/-- In the extracted step sequence every step that may raise — loading, parser construction,
`parser.parse()`, the checks that `raise Error` (no models, modular result into a file or
without a directory), the header file read, the encode check of every module's text — precedes the first `mkdir` / `open`: nothing before
the write loop touches the file system, nothing in or after it may raise. -/
theorem raises_before_first_write : raisesBeforeWrites pre loopBody post = true := by decide

/-- the table is not vacuous: `parser.parse()` is a may-raise step of `pre`, `pre` has dozens of
may-raise steps and the explicit `raise Error` statements, and the write loop creates directories and opens files -/
theorem pipeline_steps_present :
    pre.any (fun s => s.kind == .mayRaise && s.what == "parser.parse") = true ∧
    (pre.filter (fun s => s.kind == .mayRaise)).length ≥ 20 ∧
    (pre.filter (fun s => s.kind == .raise)).length ≥ 3 ∧
    loopBody.any (fun s => s.kind == .openW) = true ∧ loopBody.any (fun s => s.kind == .mkdir) = true := by
  decide

/-- Before the write loop, `pre` encodes the text of every module in the requested encoding
(`(custom_file_header or header.format(filename)).encode(encoding)`, `(body or "").encode(encoding)`
in a loop over the same dict as the write loop, repair 499b7f3 of D17) … -/
theorem encode_check_precedes_writes : hasEncodeCheck pre = true := by decide

/-- … and every expression the write loop prints is one of the expressions checked there
(up to `.rstrip()` / `or ""`, normalised by the translator). -/
theorem printed_text_is_checked : encodeGuardsWrites pre loopBody = true := by decide

/-- FULL STRENGTH, for every file-system state, every list of modules with ANY texts (encodable
or not), every fault oracle (any subset of the may-raise steps failing, the encode check
included): a failed run leaves every file exactly as it was. What remains outside is an
OS-level failure of `mkdir` / `open` / `write` / `close` (they do not fail in the model). -/
theorem failed_run_fs_unchanged (env : Env) (f : Faults) (st st' : St)
    (h : run env f pre loopBody post st = .failed st') : st'.files = st.files :=
  failed_run_files_checked env f pre loopBody post raises_before_first_write encode_check_precedes_writes st st' h

/-- witness environment of the former defect D17: one module `out.py` with existing content,
the new text is not encodable -/
def d17Env : Env := ⟨["out.py"], [([], ['é'])], fun _ => false, chdirSome⟩
def noFaults : Faults := ⟨fun _ => false, fun _ _ => false, fun _ => false⟩
def d17Before : St := ⟨[(["out.py"], "old".toList)], .orig⟩

/-- non-vacuity: a run that fails because the parser raises … -/
example : run { d17Env with encodable := fun _ => true }
    ⟨fun i => pre[i]?.map (·.what) == some "parser.parse", fun _ _ => false, fun _ => false⟩
    pre loopBody post d17Before = .failed d17Before := by decide

/-- … and the former D17 witness (`encoding="ascii"`, non-ASCII text, existing `out.py`): the run
now fails at the encode check, with the old content intact. -/
theorem encode_error_fails_before_open :
    run d17Env noFaults pre loopBody post d17Before = .failed d17Before := by decide

/-! ### refusals: which runs must fail, and that they fail before anything is written -/

/-- THE REVIEWED REFUSALS of `generate()` (source order): function, exception, message, guarding conditions (normalised source of
the enclosing `if` tests; `not (…)` = `else` branch; `except …` = handler), after `parser.parse()`?, before the first write? -/
def reviewedRefusals : List Refusal :=
  [⟨"get_first_file", "Error", "File not found", ["input_file_type == InputFileType.Auto"], false, true⟩,
   ⟨"generate", "Error", "Invalid file format", ["input_file_type == InputFileType.Auto", "except Exception"], false, true⟩,
   ⟨"generate", "Error", "f'Input must be a file for {input_file_type}'",
     ["not (input_file_type == InputFileType.OpenAPI)", "not (input_file_type == InputFileType.GraphQL)", "input_file_type in RAW_DATA_TYPES",
      "isinstance(input_, Path) and input_.is_dir()"], false, true⟩,
   ⟨"generate", "Error", "Invalid file format",
     ["not (input_file_type == InputFileType.OpenAPI)", "not (input_file_type == InputFileType.GraphQL)", "input_file_type in RAW_DATA_TYPES",
      "except Exception"], false, true⟩,
   ⟨"generate", "Error", "union_mode is only supported for pydantic_v2.BaseModel",
     ["union_mode is not None", "not (output_model_type == DataModelType.PydanticV2BaseModel)"], false, true⟩,
   ⟨"generate", "Error", "Models not found in the input data", ["not results"], true, true⟩,
   ⟨"generate", "Error", "Modular references require an output directory", ["not (isinstance(results, str))", "output is None"], true, true⟩,
   ⟨"generate", "Error", "Modular references require an output directory, not a file", ["not (isinstance(results, str))", "output.suffix"], true, true⟩]

/-- Every reviewed refusal is in the table extracted from the `ast` of `generate()` (and of the helpers it calls) with EXACTLY the
reviewed guarding conditions and the reviewed position relative to `parser.parse()`, and every `raise` of the table — reviewed or
new — stands before the first file-system effect. A removed, moved, re-guarded or weakened refusal breaks this. -/
theorem refusals_as_reviewed :
    reviewedPresent reviewedRefusals refusals = true ∧ refusals.all (·.beforeFirstWrite) = true := by decide

/-- For EVERY kind of parse result (nothing / one module / a dict of modules) and EVERY output argument (stdout, a path with or
without a suffix) the extracted after-parse refusals — evaluated in source order on their extracted conditions — decide what the
contract says: no models ⇒ refused; a modular result into stdout or into a file-like path ⇒ refused "Modular references require
an output directory"; everything else proceeds to the write loop. No condition is outside the reviewed atoms. -/
theorem refusals_meet_contract (r : ResultKind) (o : OutputArg) :
    tableDecision r o refusals = contractDecision r o := by
  cases r <;> rcases o with ⟨a, b⟩ <;> cases a <;> cases b <;> decide

/-- non-vacuity: the modular result into `models.py` is refused by the table, a single module into it proceeds -/
example : tableDecision .modular ⟨false, true⟩ refusals = .refused "Modular references require an output directory, not a file" ∧
    tableDecision .single ⟨false, true⟩ refusals = .proceeds ∧ tableDecision .modular ⟨false, false⟩ refusals = .proceeds := by decide

/-- … and a refused run is a FAILED run of the step model whose file system is the one before (with `failed_run_fs_unchanged`:
the refusals are `raise` steps of `pre`): there are at least as many `raise` steps in `pre` as after-parse and in-`generate` refusals -/
theorem refusals_are_steps_of_pre :
    (pre.filter (fun s => s.kind == .raise)).length ≥ (refusals.filter (fun r => r.fn == "generate")).length ∧
    (refusals.filter (·.afterParse)).length ≥ 3 := by decide

/-! ### every path, context managers included -/

/-- On the extracted tables with the steps of `chdir()` itself put in place of `with chdir(output):` (its `__enter__` part: save the
directory, switch; its `__exit__` part: switch back) and with the effects of module-level helpers inlined at their calls: no step
up to the write loop creates a directory, opens a file for writing, writes or otherwise changes the file system, and no step in or
after the write loop may raise — for `chdir(path)` and for `chdir(None)`. A context manager (or helper) that creates the directory
it enters breaks this; the driver's `ctxRefuter` then names the step. -/
theorem effects_after_raises_with_context_managers :
    effectsAfterRaises chdirSome pre loopBody post = true ∧ effectsAfterRaises chdirNone pre loopBody post = true := by decide

/-- ANY path through `generate()` — everything up to the write loop including the steps inside the context manager it enters, ANY
number `n` of loop iterations (modules), what follows: no `mkdir` / `open` / `write` / other file-system effect is followed, anywhere
later on the path, by a step that may raise. So whichever step a run fails at, no effect has happened before it: a failed run has
created no file AND NO DIRECTORY (directories are not part of the modelled file system; this ordering is what covers them). -/
theorem no_effect_before_last_raise (cs : List CStep) (hc : cs = chdirSome ∨ cs = chdirNone) (n : Nat) :
    noEffectBeforeRaise (fullPath cs pre loopBody post n) = true := by
  apply fullPath_ordered
  rcases hc with h | h <;> rw [h]
  · exact effects_after_raises_with_context_managers.1
  · exact effects_after_raises_with_context_managers.2

/-- non-vacuity: the path with two modules has effects, may-raise steps, and the context manager's own steps (the switch of the
directory is one of them and may raise); … -/
example : (fullPath chdirSome pre loopBody post 2).any (·.effect) = true ∧
    (fullPath chdirSome pre loopBody post 2).any (·.raises) = true ∧
    ((inlineCtx chdirSome pre).filter (·.raises)).length ≥ ((pre.map flatOfStep).filter (·.raises)).length + 2 ∧
    (fullPath chdirSome pre loopBody post 2).length > (fullPath chdirSome pre loopBody post 0).length := by decide +kernel

/-- … the ordering predicate does reject an effect that precedes a failure, and a context manager that creates the directory it
enters (one member of the family: `mkdir` before the `try`) is refuted with the step named. -/
example : noEffectBeforeRaise [⟨true, false, "mkdir"⟩, ⟨false, true, "parse"⟩] = false ∧
    (let cm : List CStep := [⟨.saveCwd, "prev"⟩, ⟨.mkdir, "target.mkdir"⟩, ⟨.tryBegin, ""⟩, ⟨.chdirTarget, "target"⟩, ⟨.yield, ""⟩,
        ⟨.finallyBegin, ""⟩, ⟨.chdirSaved, "prev"⟩, ⟨.tryEnd, ""⟩]
     effectsAfterRaises cm pre loopBody post = false ∧
     effectRefuter cm pre loopBody post = some "effect-before-raise chdir(): target.mkdir" ∧
     noEffectBeforeRaise (fullPath cm pre loopBody post 1) = false ∧ restoresCwd cm = true) := by decide

/-! ### working directory -/

/-- the context manager restores the working directory whichever of its steps raises —
in particular when the body of the `with` raises (fault at the `yield`) — and when none does -/
theorem chdir_restores : restoresCwd chdirSome = true ∧ restoresCwd chdirNone = true := by decide

/-- `chdir` is a generator-based context manager with the `yield` inside `try … finally` -/
theorem chdir_shape :
    chdirIsContextManager = true ∧ cwdInside chdirSome = .target ∧ cwdInside chdirNone = .orig := by decide

theorem cwd_tables_ok :
    cwdTablesOK chdirSome pre loopBody post = true ∧ cwdTablesOK chdirNone pre loopBody post = true := by
  decide

/-- For every run — success, or failure at ANY may-raise step including inside `with chdir(output)`
and including the encoding failure — the working directory afterwards is the one before.
`orig`/`target` are arbitrary directories. -/
theorem cwd_restored (env : Env) (hc : env.chdirSteps = chdirSome ∨ env.chdirSteps = chdirNone)
    (f : Faults) (files : List (Path × Content)) (orig target : Path) :
    (run env f pre loopBody post ⟨files, .orig⟩).st.cwd.denote orig target = orig := by
  have : (run env f pre loopBody post ⟨files, .orig⟩).st.cwd = .orig := by
    apply run_cwd
    · rcases hc with h | h <;> rw [h]
      · exact cwd_tables_ok.1
      · exact cwd_tables_ok.2
    · rfl
  rw [this]; rfl

/-- the working directory really is switched while the parser runs (so the theorem is not vacuous) -/
example : (exec d17Env (fun _ => false) none 0 false d17Before
    (pre.takeWhile (fun s => s.what != "parser.parse"))).st.cwd = .target := by decide

/-! ### only the requested output is written -/

theorem writes_only_in_loop : writesOnlyInLoop pre loopBody post = true := by decide

/-- the keys of the dict the write loop iterates over are `output` or `output.joinpath(*name)` -/
theorem module_keys_under_output : moduleKeyExprs.all keyUnderOutput = true ∧ moduleKeyExprs ≠ [] := by decide

/-- `output` may be a relative path: the only step of `generate()` that runs inside `with chdir(output)` is
`parser.parse()`; the module → file map, the `mkdir`s and the `open`s of the write loop are evaluated with the
working directory the caller had, so `output.joinpath(*name)` denotes a file below the directory the caller
named (and not below `<output>/<output>` or `<output's parent>/<output>`). -/
theorem output_paths_resolved_in_callers_cwd : onlyParseInsideChdir pre loopBody post = true := by decide

/-- … and that one region is entered as `chdir(output)`, `parse()` is handed no settings path and `chdir` switches to
`path if path.is_dir() else path.parent`: the stage that looks at the working directory (the formatters' configuration discovery)
runs in the output directory and nowhere else (the same reviewed shape carries C08's independence from the caller's directory). -/
theorem parse_runs_inside_chdir_output : parseInsideChdirOutput pre chdirSome parseCallArguments = true := by decide

/-- Success or failure: a path that is not at or below the requested output has the same content
(or absence) afterwards. Module paths are `out ++ name` (assumption: the components of `name`
are plain names — C12 — so `joinpath` stays below `output`). -/
theorem writes_inside_output (env : Env) (f : Faults) (st : St) (p : Path) (hp : ¬ env.out <+: p) :
    getFile (run env f pre loopBody post st).st.files p = getFile st.files p :=
  run_outside env f pre loopBody post writes_only_in_loop st p hp

/-- non-vacuity: a successful run writes the module text under the output path -/
example : run { d17Env with encodable := fun _ => true } noFaults pre loopBody post d17Before =
    .done ⟨[(["out.py"], ['é', 'é', 'é'])], .orig⟩ := by decide

end Dcg.Props.C20
