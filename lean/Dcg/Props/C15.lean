import Dcg.Model.Bounds
import Dcg.Gen.Formats
/-
C15 — equivalent inputs produce the same models.
What can be stated about the generator's own algorithms is here: the rewriting of draft-4 boolean
exclusive bounds, and which containers of named schemas are walked. JSON-vs-YAML text and
str-vs-Path are I/O (PyYAML, the file system): no theorem, differential runs only
(vlib/props/c15.py) — the claim for those parts is PARTIAL.
-/
namespace Dcg.Props.C15
open Dcg.Model.Bounds Dcg.Gen.Formats

/-! ### exclusive bounds -/

/-- FULL STRENGTH, all bounds of any number type, either side present or absent, strict or not, the
non-strict flag omitted or written `false`: the draft-4 spelling and the draft-6 spelling of an
interval are normalised to the same record (the draft-6 one). -/
theorem bounds_equiv {α : Type} (lo hi : Side α) (writeFalse : Bool) :
    normalise (draft4 lo hi writeFalse) = some (draft6 lo hi) ∧
    normalise (draft6 lo hi) = some (draft6 lo hi) := by
  rcases lo with _ | ⟨m, sm⟩ <;> rcases hi with _ | ⟨M, sM⟩ <;>
    cases writeFalse <;> (try cases sm) <;> (try cases sM) <;>
    simp [normalise, stepMax, stepMin, draft4, draft6]

/-- the instance named in the property: `minimum m + exclusiveMinimum true`, `maximum M +
exclusiveMaximum true` versus `exclusiveMinimum m`, `exclusiveMaximum M`, for ALL m, M -/
theorem bounds_equiv_strict {α : Type} (m M : α) :
    normalise ({ minimum := some m, exclusiveMinimum := some (.flag true),
                 maximum := some M, exclusiveMaximum := some (.flag true) } : Rec α)
      = normalise ({ exclusiveMinimum := some (.num m), exclusiveMaximum := some (.num M) } : Rec α) := by
  simp [normalise, stepMax, stepMin]

example : normalise ({ minimum := some (3 : Int), exclusiveMinimum := some (.flag true) } : Rec Int)
    = some { exclusiveMinimum := some (.num 3) } := by decide

/-- Normalisation is idempotent on every record it accepts (arbitrary mixtures of keywords). -/
theorem normalise_idempotent {α : Type} (r r' : Rec α) (h : normalise r = some r') :
    normalise r' = some r' := by
  obtain ⟨mn, mx, emn, emx⟩ := r
  rcases emx with _ | ⟨_ | _⟩ | _ <;> rcases emn with _ | ⟨_ | _⟩ | _ <;>
    rcases mx with _ | _ <;> rcases mn with _ | _ <;>
    simp [normalise, stepMax, stepMin] at h <;> subst h <;> simp [normalise, stepMax, stepMin]

/-- A draft-4 `exclusive*: true` without its inclusive keyword is refused (the `KeyError`), not
silently turned into something else. -/
theorem strict_without_bound_is_error {α : Type} (r : Rec α)
    (h : (r.exclusiveMaximum = some (.flag true) ∧ r.maximum = none) ∨
         (r.exclusiveMinimum = some (.flag true) ∧ r.minimum = none ∧ r.exclusiveMaximum = none)) :
    normalise r = none := by
  obtain ⟨mn, mx, emn, emx⟩ := r
  rcases h with ⟨h1, h2⟩ | ⟨h1, h2, h3⟩ <;> simp_all [normalise, stepMax, stepMin]

/-- The branches of the validator in the source are the four the model implements (regenerated from
the AST on every run: swapping a keyword, a truth value or an action breaks this). -/
theorem bounds_steps_as_modelled :
    boundsSteps = [("exclusiveMaximum", "True", "move:maximum"), ("exclusiveMaximum", "False", "drop"),
                   ("exclusiveMinimum", "True", "move:minimum"), ("exclusiveMinimum", "False", "drop")] := by
  decide

/-! ### containers of named schemas -/

/-- Both `#/definitions` and `#/$defs` are walked by the JSON-Schema parser, `#/components/schemas`
by the OpenAPI parser. -/
theorem defs_paths_both_walked :
    jsonSchemaPaths.contains "#/definitions" = true ∧ jsonSchemaPaths.contains "#/$defs" = true ∧
    openapiSchemaPaths.contains "#/components/schemas" = true := by decide

/-- The same non-empty set of named schemas held under `definitions` or under `$defs` is the set
that is walked, whatever the set is. -/
theorem defs_equiv {β : Type} (d : β) (ds : List β) :
    pickContainer [("definitions", d :: ds)] containerKeys = d :: ds ∧
    pickContainer [("$defs", d :: ds)] containerKeys = d :: ds := by
  simp [containerKeys, jsonSchemaPathsSplit, pickContainer, List.lookup]

/-- FALSE in general for a document that has BOTH containers: only the first non-empty one is
walked; the schemas of the other are parsed only if something refers to them (known finding). -/
theorem both_containers_first_only {β : Type} (a b : β) :
    pickContainer [("definitions", [a]), ("$defs", [b])] containerKeys = [a] := by
  simp [containerKeys, jsonSchemaPathsSplit, pickContainer, List.lookup]

/-- Every entry of the walked container becomes a definition, whatever its body is — an empty schema `{}`, a schema
that only carries annotations, or a full one — as long as every body is a mapping. -/
theorem walk_keeps_every_name (entries : List (String × Body))
    (h : entries.all (fun e => e.2 != .notAMapping) = true) : walkNamed entries = some (entries.map (·.1)) := by
  unfold walkNamed
  have : entries.any (fun e => e.2 == .notAMapping) = false := by
    rw [List.any_eq_false]
    intro e he
    have := List.all_eq_true.mp h e he
    simpa using this
  simp [this]

/-- … so the set of definitions is the same for two containers that hold the same names, whatever each side's bodies
look like (the `definitions` / `$defs` / `components.schemas` equivalence does not depend on what the schemas are). -/
theorem walk_body_independent (entries : List (String × Body)) (f : Body → Body)
    (hf : ∀ b, (f b == .notAMapping) = (b == .notAMapping)) :
    walkNamed (entries.map (fun e => (e.1, f e.2))) = walkNamed entries := by
  have hany : (entries.map (fun e => (e.1, f e.2))).any (fun e => e.2 == .notAMapping) =
      entries.any (fun e => e.2 == .notAMapping) := by
    induction entries with
    | nil => rfl
    | cons e es ih => simp only [List.map_cons, List.any_cons, ih, hf]
  have hmap : (entries.map (fun e => (e.1, f e.2))).map (·.1) = entries.map (·.1) := by
    rw [List.map_map]
    rfl
  unfold walkNamed
  rw [hany, hmap]

/-- non-vacuity: an unreferenced empty schema beside an ordinary one is kept -/
example : walkNamed [("Pet", .typed), ("AnyValue", .empty)] = some ["Pet", "AnyValue"] := by decide

/-- a body that is not a mapping aborts the run — in every container alike -/
theorem walk_refuses_non_mapping (entries : List (String × Body)) (n : String) (h : (n, Body.notAMapping) ∈ entries) :
    walkNamed entries = none := by
  unfold walkNamed
  have : entries.any (fun e => e.2 == .notAMapping) = true := List.any_eq_true.mpr ⟨_, h, by simp⟩
  simp [this]

/-! ### formats -/

/-- Every JSON-Schema type of the format table has a `default` entry, so an unknown format falls
back instead of failing — in every representation alike. -/
theorem formats_have_default :
    dataFormats.all (fun t => (t.2.lookup "default").isSome) = true ∧ dataFormats ≠ [] := by decide

end Dcg.Props.C15
