import Dcg.Model.Bounds
import Dcg.Gen.Formats
import Dcg.Model.YamlLoader
import Dcg.Gen.YamlLoader
/-
C15 — equivalent inputs produce the same models.
What can be stated about the generator's own algorithms is here: the rewriting of draft-4 boolean
exclusive bounds, and which containers of named schemas are walked (all of them: `definitions` and `$defs`). JSON-vs-YAML text and
str-vs-Path are I/O (PyYAML, the file system): no theorem, differential runs only
(vlib/props/c15.py) — the claim for those parts is PARTIAL.
-/
namespace Dcg.Props.C15
open Dcg.Model.Bounds Dcg.Gen.Formats Dcg.Model.YamlLoader Dcg.Gen.YamlLoader

/-! ### exclusive bounds -/

/-- FULL STRENGTH, all bounds of any number type, either side present or absent, strict or not, the
non-strict flag omitted or written `false`: the draft-4 spelling and the draft-6 spelling of an
interval are normalised to the same record (the draft-6 one). -/
theorem bounds_equiv {α : Type} (lo hi : Side α) (writeFalse : Bool) :
    normalise (draft4 lo hi writeFalse) = some (draft6 lo hi) ∧
    normalise (draft6 lo hi) = some (draft6 lo hi) := by
  rcases lo with _ | ⟨m, sm⟩ <;> rcases hi with _ | ⟨M, sM⟩ <;>
    cases writeFalse <;> (try cases sm) <;> (try cases sM) <;>
    simp [normalise, stepMax, stepMin, draft4, draft6]

/-- the instance named in the property: `minimum m + exclusiveMinimum true`, `maximum M +
exclusiveMaximum true` versus `exclusiveMinimum m`, `exclusiveMaximum M`, for ALL m, M -/
theorem bounds_equiv_strict {α : Type} (m M : α) :
    normalise ({ minimum := some m, exclusiveMinimum := some (.flag true),
                 maximum := some M, exclusiveMaximum := some (.flag true) } : Rec α)
      = normalise ({ exclusiveMinimum := some (.num m), exclusiveMaximum := some (.num M) } : Rec α) := by
  simp [normalise, stepMax, stepMin]

example : normalise ({ minimum := some (3 : Int), exclusiveMinimum := some (.flag true) } : Rec Int)
    = some { exclusiveMinimum := some (.num 3) } := by decide

/-- Normalisation is idempotent on every record it accepts (arbitrary mixtures of keywords). -/
theorem normalise_idempotent {α : Type} (r r' : Rec α) (h : normalise r = some r') :
    normalise r' = some r' := by
  obtain ⟨mn, mx, emn, emx⟩ := r
  rcases emx with _ | ⟨_ | _⟩ | _ <;> rcases emn with _ | ⟨_ | _⟩ | _ <;>
    rcases mx with _ | _ <;> rcases mn with _ | _ <;>
    simp [normalise, stepMax, stepMin] at h <;> subst h <;> simp [normalise, stepMax, stepMin]

/-- A draft-4 `exclusive*: true` without its inclusive keyword is refused (the `KeyError`), not
silently turned into something else. -/
theorem strict_without_bound_is_error {α : Type} (r : Rec α)
    (h : (r.exclusiveMaximum = some (.flag true) ∧ r.maximum = none) ∨
         (r.exclusiveMinimum = some (.flag true) ∧ r.minimum = none ∧ r.exclusiveMaximum = none)) :
    normalise r = none := by
  obtain ⟨mn, mx, emn, emx⟩ := r
  rcases h with ⟨h1, h2⟩ | ⟨h1, h2, h3⟩ <;> simp_all [normalise, stepMax, stepMin]

/-- The branches of the validator in the source are the four the model implements (regenerated from
the AST on every run: swapping a keyword, a truth value or an action breaks this). -/
theorem bounds_steps_as_modelled :
    boundsSteps = [("exclusiveMaximum", "True", "move:maximum"), ("exclusiveMaximum", "False", "drop"),
                   ("exclusiveMinimum", "True", "move:minimum"), ("exclusiveMinimum", "False", "drop")] := by
  decide

/-! ### containers of named schemas -/

/-- Both `#/definitions` and `#/$defs` are walked by the JSON-Schema parser, `#/components/schemas`
by the OpenAPI parser; `schema_paths` of the JSON-Schema parser (regenerated from `SCHEMA_PATHS` on every
run) is the pair of containers the model walks, in this order. -/
theorem defs_paths_both_walked :
    jsonSchemaPaths.contains "#/definitions" = true ∧ jsonSchemaPaths.contains "#/$defs" = true ∧
    openapiSchemaPaths.contains "#/components/schemas" = true ∧
    containerPaths = [("#/definitions", "definitions"), ("#/$defs", "$defs")] := by decide

/-- The loop of `_parse_file` that collects the named schemas, re-extracted from the AST on every run, has
the shape the model implements: every container of `schema_paths` is looked up, a missing one is skipped,
the entries of every non-empty one are appended together with the path of their container — there is no
`break` — and both later loops (`parse_id`, `parse_raw_obj`) run over that list under
`[*path_parts, schema_path, key]`. -/
theorem container_loop_as_modelled :
    containerLoop =
      ["for (schema_path, split_schema_path) in self.schema_paths:",
       "try: found = get_model_by_path(raw, split_schema_path)",
       "except KeyError: continue",
       "if found: definitions.extend(((schema_path, key, model) for key, model in found.items()))",
       "for (schema_path, key, model) in definitions: self.parse_id(obj, [*path_parts, schema_path, key])",
       "for (schema_path, key, model) in definitions: path = [*path_parts, schema_path, key]; self.parse_raw_obj(key, model, path)"] := by
  decide

/-- WHAT IS WALKED, for ANY document and ANY `SCHEMA_PATHS`: an entry is walked under the path `p` exactly when
`p` is a container path of the parser and the entry sits in the container of the document that `p` names. -/
theorem walk_mem {β : Type} (cs : List (String × List β)) (ps : List (String × String)) (p : String) (e : β) :
    (p, e) ∈ walkContainers cs ps ↔ ∃ k es, (p, k) ∈ ps ∧ cs.lookup k = some es ∧ e ∈ es := by
  induction ps with
  | nil => simp [walkContainers]
  | cons q qs ih =>
    obtain ⟨path, key⟩ := q
    simp only [walkContainers, List.mem_append, ih, List.mem_cons, Prod.mk.injEq]
    constructor
    · rintro (h | ⟨k, es, hk, hl, he⟩)
      · cases hl : cs.lookup key with
        | none => simp [hl] at h
        | some es =>
          simp only [hl, List.mem_map, Prod.mk.injEq] at h
          obtain ⟨e', he', hp, rfl⟩ := h
          exact ⟨key, es, Or.inl (by simp [hp]), hl, he'⟩
      · exact ⟨k, es, Or.inr hk, hl, he⟩
    · rintro ⟨k, es, (⟨rfl, rfl⟩ | hk), hl, he⟩
      · left
        simp only [hl, List.mem_map, Prod.mk.injEq]
        exact ⟨e, he, by simp⟩
      · exact Or.inr ⟨k, es, hk, hl, he⟩

/-- The same set of named schemas held under `definitions` or under `$defs` is the set that is
walked, whatever the set is (the empty one included), each entry under the path of its container. -/
theorem defs_equiv {β : Type} (ds : List β) :
    walkContainers [("definitions", ds)] containerPaths = ds.map (fun e => ("#/definitions", e)) ∧
    walkContainers [("$defs", ds)] containerPaths = ds.map (fun e => ("#/$defs", e)) ∧
    (walkContainers [("definitions", ds)] containerPaths).map (·.2) =
      (walkContainers [("$defs", ds)] containerPaths).map (·.2) := by
  simp [containerPaths, jsonSchemaPaths, jsonSchemaPathsSplit, walkContainers, List.lookup, Function.comp_def]

/-- FULL STRENGTH for a document that has BOTH containers (in either key order of the document; the entries
`as`, `bs` arbitrary, a name may occur in both): the schemas walked are the UNION — the entries of `definitions`
under `#/definitions` followed by the entries of `$defs` under `#/$defs`, none lost, none twice. -/
theorem defs_union {β : Type} (as bs : List β) :
    walkContainers [("definitions", as), ("$defs", bs)] containerPaths =
      as.map (fun e => ("#/definitions", e)) ++ bs.map (fun e => ("#/$defs", e)) ∧
    walkContainers [("$defs", bs), ("definitions", as)] containerPaths =
      as.map (fun e => ("#/definitions", e)) ++ bs.map (fun e => ("#/$defs", e)) := by
  simp [containerPaths, jsonSchemaPaths, jsonSchemaPathsSplit, walkContainers, List.lookup]

/-- …hence splitting the named schemas of a document over the two containers changes nothing about WHICH schemas
are walked: any split `as ++ bs` gives the entries that one container holding all of them gives (under either key). -/
theorem defs_split_equiv {β : Type} (as bs : List β) :
    (walkContainers [("definitions", as), ("$defs", bs)] containerPaths).map (·.2) = as ++ bs ∧
    (walkContainers [("definitions", as ++ bs)] containerPaths).map (·.2) = as ++ bs ∧
    (walkContainers [("$defs", as ++ bs)] containerPaths).map (·.2) = as ++ bs := by
  simp [containerPaths, jsonSchemaPaths, jsonSchemaPathsSplit, walkContainers, List.lookup, Function.comp_def]

/-- non-vacuity of the two statements above: `definitions: {Aa}`, `$defs: {Bb}` (the former finding
C15-both-containers, where only `Aa` was walked) -/
example : walkContainers [("definitions", ["Aa"]), ("$defs", ["Bb"])] containerPaths =
    [("#/definitions", "Aa"), ("#/$defs", "Bb")] := by decide

/-- No entry is walked twice — for ANY document whose containers have distinct keys (a JSON object) and ANY
`SCHEMA_PATHS` without a repeated path. In particular the SAME name in two containers is two different entries
(two registry paths), not one. -/
theorem walk_nodup {β : Type} (cs : List (String × List β)) (ps : List (String × String))
    (hps : (ps.map (·.1)).Nodup) (hcs : ∀ k es, cs.lookup k = some es → es.Nodup) :
    (walkContainers cs ps).Nodup := by
  induction ps with
  | nil => simp [walkContainers]
  | cons q qs ih =>
    obtain ⟨path, key⟩ := q
    simp only [List.map_cons, List.nodup_cons] at hps
    simp only [walkContainers]
    rw [List.nodup_append]
    refine ⟨?_, ih hps.2, ?_⟩
    · cases hl : cs.lookup key with
      | none => simp
      | some es =>
        exact List.Pairwise.map _ (fun a b hab h => hab (by simpa using h)) (hcs key es hl)
    · intro a ha b hb hab
      subst hab
      obtain ⟨p, e⟩ := a
      have hp : p = path := by
        cases hl : cs.lookup key with
        | none => simp [hl] at ha
        | some es =>
          simp only [hl, List.mem_map, Prod.mk.injEq] at ha
          obtain ⟨_, _, h, _⟩ := ha
          exact h.symm
      obtain ⟨k, es, hk, _, _⟩ := (walk_mem cs qs p e).mp hb
      exact hps.1 (List.mem_map.mpr ⟨(p, k), hk, hp⟩)

/-- THE WHOLE WALK of a document with both containers, every body a mapping: the definitions are the entries of
`definitions` under `#/definitions/<name>` and the entries of `$defs` under `#/$defs/<name>` — whatever the bodies are
and whatever the names are. -/
theorem walkDoc_both (as bs : List (String × Body))
    (ha : as.all (fun e => e.2 != .notAMapping) = true) (hb : bs.all (fun e => e.2 != .notAMapping) = true) :
    walkDoc [("definitions", as), ("$defs", bs)] containerPaths =
      some (as.map (fun e => ("#/definitions", e.1)) ++ bs.map (fun e => ("#/$defs", e.1))) := by
  have hany : ∀ (l : List (String × Body)) (p : String), l.all (fun e => e.2 != .notAMapping) = true →
      (l.map (fun e => (p, e))).any (fun w => w.2.2 == .notAMapping) = false := by
    intro l p h
    rw [List.any_eq_false]
    intro w hw
    obtain ⟨e, he, rfl⟩ := List.mem_map.mp hw
    simpa using List.all_eq_true.mp h e he
  unfold walkDoc
  simp only [(defs_union as bs).1, List.any_append, hany as _ ha, hany bs _ hb, Bool.or_self, Bool.false_eq_true,
    if_false, List.map_append, List.map_map, Function.comp_def]

/-- The same name in both containers: two definitions under two paths (the code parses each with `parse_raw_obj`
under its own path; the class names are then `X` and `X1`, C06 `names_distinct_after_unique_adds`). -/
theorem same_name_two_paths (x : String) (a b : Body) (ha : a ≠ .notAMapping) (hb : b ≠ .notAMapping) :
    walkDoc [("definitions", [(x, a)]), ("$defs", [(x, b)])] containerPaths =
      some [("#/definitions", x), ("#/$defs", x)] := by
  rw [walkDoc_both] <;> simp [ha, hb]

example : walkDoc [("definitions", [("X", .typed)]), ("$defs", [("X", .empty)])] containerPaths =
    some [("#/definitions", "X"), ("#/$defs", "X")] := by decide

/-- A body that is not a mapping aborts the run in WHICHEVER container it sits (the first loop parses every entry
of every container before anything is generated). -/
theorem walkDoc_refuses_non_mapping (cs : List (String × List (String × Body))) (ps : List (String × String))
    (p n : String) (h : (p, (n, Body.notAMapping)) ∈ walkContainers cs ps) : walkDoc cs ps = none := by
  unfold walkDoc
  have : (walkContainers cs ps).any (fun w => w.2.2 == .notAMapping) = true :=
    List.any_eq_true.mpr ⟨_, h, by simp⟩
  simp [this]

/-- `walkDoc` is `walkNamed` (the per-container loop that the OpenAPI parser has, too) over the concatenation of
the containers, with the container path kept beside every name. -/
theorem walkDoc_names (cs : List (String × List (String × Body))) (ps : List (String × String)) :
    (walkDoc cs ps).map (fun l => l.map (·.2)) = walkNamed ((walkContainers cs ps).map (·.2)) := by
  have hany : ((walkContainers cs ps).map (·.2)).any (fun e => e.2 == .notAMapping) =
      (walkContainers cs ps).any (fun w => w.2.2 == .notAMapping) := by
    rw [List.any_map]; rfl
  unfold walkDoc walkNamed
  simp only [hany]
  cases (walkContainers cs ps).any (fun w => w.2.2 == .notAMapping) <;> simp [Function.comp_def]

/-- Every entry of the walked container becomes a definition, whatever its body is — an empty schema `{}`, a schema
that only carries annotations, or a full one — as long as every body is a mapping. -/
theorem walk_keeps_every_name (entries : List (String × Body))
    (h : entries.all (fun e => e.2 != .notAMapping) = true) : walkNamed entries = some (entries.map (·.1)) := by
  unfold walkNamed
  have : entries.any (fun e => e.2 == .notAMapping) = false := by
    rw [List.any_eq_false]
    intro e he
    have := List.all_eq_true.mp h e he
    simpa using this
  simp [this]

/-- … so the set of definitions is the same for two containers that hold the same names, whatever each side's bodies
look like (the `definitions` / `$defs` / `components.schemas` equivalence does not depend on what the schemas are). -/
theorem walk_body_independent (entries : List (String × Body)) (f : Body → Body)
    (hf : ∀ b, (f b == .notAMapping) = (b == .notAMapping)) :
    walkNamed (entries.map (fun e => (e.1, f e.2))) = walkNamed entries := by
  have hany : (entries.map (fun e => (e.1, f e.2))).any (fun e => e.2 == .notAMapping) =
      entries.any (fun e => e.2 == .notAMapping) := by
    induction entries with
    | nil => rfl
    | cons e es ih => simp only [List.map_cons, List.any_cons, ih, hf]
  have hmap : (entries.map (fun e => (e.1, f e.2))).map (·.1) = entries.map (·.1) := by
    rw [List.map_map]
    rfl
  unfold walkNamed
  rw [hany, hmap]

/-- non-vacuity: an unreferenced empty schema beside an ordinary one is kept -/
example : walkNamed [("Pet", .typed), ("AnyValue", .empty)] = some ["Pet", "AnyValue"] := by decide

/-- a body that is not a mapping aborts the run — in every container alike -/
theorem walk_refuses_non_mapping (entries : List (String × Body)) (n : String) (h : (n, Body.notAMapping) ∈ entries) :
    walkNamed entries = none := by
  unfold walkNamed
  have : entries.any (fun e => e.2 == .notAMapping) = true := List.any_eq_true.mpr ⟨_, h, by simp⟩
  simp [this]

/-! ### the loader that reads both JSON and YAML text -/

/-- the REVIEWED differences between the loader `load_yaml` uses and the stock `yaml.SafeLoader`: one constructor
registration — a node tagged `timestamp` (a plain `2001-01-01`, `2001-12-14t21:59:43.10-05:00`, `!!timestamp …`) is
constructed by the string constructor. Nothing else: no other constructor (in particular none for `map`, `seq`, `str`,
`int`, `float`, `bool`, `null`, `merge`), no multi-constructor, no implicit or path resolver, no overridden method of the
constructor / resolver layers (`construct_mapping`, `flatten_mapping`, …), no foreign class in the MRO. -/
def reviewedOverrides : List (String × String × String) :=
  [("constructor", "tag:yaml.org,2002:timestamp", "SafeConstructor.construct_yaml_str")]

/-- The override set of the loader, regenerated from the running package on every run (vlib/translate/yamlloader.py:
the four tables of the class `load_yaml` hands to `yaml.load`, every method of the constructor and resolver layers and
the MRO, each compared with `yaml.SafeLoader`), is EXACTLY the reviewed one; the module-level statements of util.py that
touch the loader classes are the four reviewed ones; `load_yaml` hands the stream to `yaml.load` with that loader and
`load_yaml_from_path` is `load_yaml` of the opened file. A new resolver / constructor registration, an overridden method
or another loader breaks this obligation (kernel-decided on the regenerated tables); the failing-input search then looks
for a YAML text of the surface family that the pair oracle `json_vs_yaml_surface` rejects. -/
theorem yaml_loader_overrides_reviewed :
    loaderOverrides = reviewedOverrides ∧
    loaderSetup =
      ["SafeLoaderTemp = copy.deepcopy(SafeLoader)",
       "SafeLoaderTemp.yaml_constructors = copy.deepcopy(SafeLoader.yaml_constructors)",
       "SafeLoaderTemp.add_constructor('tag:yaml.org,2002:timestamp', SafeLoaderTemp.yaml_constructors['tag:yaml.org,2002:str'])",
       "SafeLoader = SafeLoaderTemp"] ∧
    loadYamlBody =
      ["load_yaml: return yaml.load(stream, Loader=SafeLoader)",
       "load_yaml_from_path: with path.open(encoding=encoding) as f: return load_yaml(f)"] := by
  decide

/-- For ANY stock table and ANY override rows: a tag for which no constructor is registered among the overrides is
constructed by the stock constructor (rows of other kinds — resolvers, methods — are not looked at by the lookup). -/
theorem ctorOf_without_override (stock : List (String × String)) (fb : String)
    (ovr : List (String × String × String)) (tag : String)
    (h : ∀ r ∈ ovr, r.1 = "constructor" → r.2.1 ≠ tag) :
    ctorOf stock fb ovr tag = ctorOf stock fb [] tag := by
  have hl : (ctorOverrides ovr).lookup tag = none := by
    induction ovr with
    | nil => rfl
    | cons r rs ih =>
      have ih' := ih (fun r' hr' => h r' (List.mem_cons_of_mem _ hr'))
      obtain ⟨k, t, c⟩ := r
      by_cases hk : k = "constructor"
      · have hne : t ≠ tag := h (k, t, c) List.mem_cons_self hk
        have hbeq : (tag == t) = false := by simpa using fun e => hne e.symm
        simp only [ctorOverrides, hk, List.filter_cons, beq_self_eq_true, if_true, List.map_cons, List.lookup, hbeq] at ih' ⊢
        exact ih'
      · have hkb : (k == "constructor") = false := by simpa using hk
        simp only [ctorOverrides, List.filter_cons, hkb] at ih' ⊢
        exact ih'
  unfold ctorOf
  rw [hl]
  rfl

/-- WHERE THE LOADER DIFFERS from the stock safe loader, for EVERY tag: only at `timestamp`, which is constructed like
`str` (so a plain timestamp-looking scalar stays the string JSON text gives); every other tag — `map` and the merge-key
handling behind it, `seq`, `str`, `int`, `float`, `bool`, `null`, `binary`, `set`, `omap`, `pairs`, and every unknown tag
(refused) — has the stock constructor. The last conjunct is the non-vacuity of the override: stock `timestamp` ≠ `str`. -/
theorem yaml_loader_differs_only_at_timestamp (tag : String) :
    (tag ≠ "tag:yaml.org,2002:timestamp" →
      ctorOf stockConstructors stockFallback loaderOverrides tag = ctorOf stockConstructors stockFallback [] tag) ∧
    ctorOf stockConstructors stockFallback loaderOverrides "tag:yaml.org,2002:timestamp" =
      ctorOf stockConstructors stockFallback [] "tag:yaml.org,2002:str" ∧
    ctorOf stockConstructors stockFallback [] "tag:yaml.org,2002:timestamp" ≠
      ctorOf stockConstructors stockFallback [] "tag:yaml.org,2002:str" := by
  refine ⟨fun h => ?_, by decide, by decide⟩
  apply ctorOf_without_override
  rw [yaml_loader_overrides_reviewed.1]
  intro r hr _
  simp only [reviewedOverrides, List.mem_singleton] at hr
  subst hr
  exact fun e => h e.symm

/-- non-vacuity: the mapping tag (behind which merge keys are flattened) and an unknown tag -/
example : ctorOf stockConstructors stockFallback loaderOverrides "tag:yaml.org,2002:map" = "SafeConstructor.construct_yaml_map" ∧
    ctorOf stockConstructors stockFallback loaderOverrides "!local" = "SafeConstructor.construct_undefined" := by decide

/-- an override table with a second registration (what a regression of the family looks like) is not the reviewed one
and changes the constructor of that tag -/
example : ctorOf stockConstructors stockFallback
    (("constructor", "tag:yaml.org,2002:map", "util.f") :: reviewedOverrides) "tag:yaml.org,2002:map" = "util.f" := by decide

/-! ### formats -/

/-- Every JSON-Schema type of the format table has a `default` entry, so an unknown format falls
back instead of failing — in every representation alike. -/
theorem formats_have_default :
    dataFormats.all (fun t => (t.2.lookup "default").isSome) = true ∧ dataFormats ≠ [] := by decide

end Dcg.Props.C15
