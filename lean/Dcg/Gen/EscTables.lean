-- GENERATED from /repo by /verif/vlib/translate on every run. Do not edit.
namespace Dcg.Gen.EscTables

def enumTable : List (Char × List Char) :=
  [(Char.ofNat 0, [Char.ofNat 92, Char.ofNat 120, Char.ofNat 48, Char.ofNat 48]),
   (Char.ofNat 1, [Char.ofNat 92, Char.ofNat 120, Char.ofNat 49]),
   (Char.ofNat 2, [Char.ofNat 92, Char.ofNat 120, Char.ofNat 50]),
   (Char.ofNat 3, [Char.ofNat 92, Char.ofNat 120, Char.ofNat 51]),
   (Char.ofNat 4, [Char.ofNat 92, Char.ofNat 120, Char.ofNat 52]),
   (Char.ofNat 5, [Char.ofNat 92, Char.ofNat 120, Char.ofNat 53]),
   (Char.ofNat 6, [Char.ofNat 92, Char.ofNat 120, Char.ofNat 54]),
   (Char.ofNat 7, [Char.ofNat 92, Char.ofNat 120, Char.ofNat 55]),
   (Char.ofNat 8, [Char.ofNat 92, Char.ofNat 98]),
   (Char.ofNat 9, [Char.ofNat 92, Char.ofNat 116]),
   (Char.ofNat 10, [Char.ofNat 92, Char.ofNat 110]),
   (Char.ofNat 11, [Char.ofNat 92, Char.ofNat 120, Char.ofNat 98]),
   (Char.ofNat 12, [Char.ofNat 92, Char.ofNat 102]),
   (Char.ofNat 13, [Char.ofNat 92, Char.ofNat 114]),
   (Char.ofNat 14, [Char.ofNat 92, Char.ofNat 120, Char.ofNat 101]),
   (Char.ofNat 15, [Char.ofNat 92, Char.ofNat 120, Char.ofNat 102]),
   (Char.ofNat 16, [Char.ofNat 92, Char.ofNat 120, Char.ofNat 49, Char.ofNat 48]),
   (Char.ofNat 17, [Char.ofNat 92, Char.ofNat 120, Char.ofNat 49, Char.ofNat 49]),
   (Char.ofNat 18, [Char.ofNat 92, Char.ofNat 120, Char.ofNat 49, Char.ofNat 50]),
   (Char.ofNat 19, [Char.ofNat 92, Char.ofNat 120, Char.ofNat 49, Char.ofNat 51]),
   (Char.ofNat 20, [Char.ofNat 92, Char.ofNat 120, Char.ofNat 49, Char.ofNat 52]),
   (Char.ofNat 21, [Char.ofNat 92, Char.ofNat 120, Char.ofNat 49, Char.ofNat 53]),
   (Char.ofNat 22, [Char.ofNat 92, Char.ofNat 120, Char.ofNat 49, Char.ofNat 54]),
   (Char.ofNat 23, [Char.ofNat 92, Char.ofNat 120, Char.ofNat 49, Char.ofNat 55]),
   (Char.ofNat 24, [Char.ofNat 92, Char.ofNat 120, Char.ofNat 49, Char.ofNat 56]),
   (Char.ofNat 25, [Char.ofNat 92, Char.ofNat 120, Char.ofNat 49, Char.ofNat 57]),
   (Char.ofNat 26, [Char.ofNat 92, Char.ofNat 120, Char.ofNat 49, Char.ofNat 97]),
   (Char.ofNat 27, [Char.ofNat 92, Char.ofNat 120, Char.ofNat 49, Char.ofNat 98]),
   (Char.ofNat 28, [Char.ofNat 92, Char.ofNat 120, Char.ofNat 49, Char.ofNat 99]),
   (Char.ofNat 29, [Char.ofNat 92, Char.ofNat 120, Char.ofNat 49, Char.ofNat 100]),
   (Char.ofNat 30, [Char.ofNat 92, Char.ofNat 120, Char.ofNat 49, Char.ofNat 101]),
   (Char.ofNat 31, [Char.ofNat 92, Char.ofNat 120, Char.ofNat 49, Char.ofNat 102]),
   (Char.ofNat 127, [Char.ofNat 92, Char.ofNat 120, Char.ofNat 55, Char.ofNat 102]),
   (Char.ofNat 92, [Char.ofNat 92, Char.ofNat 92]),
   (Char.ofNat 39, [Char.ofNat 92, Char.ofNat 39])]

def typedDictKeyTable : List (Char × List Char) :=
  [(Char.ofNat 0, [Char.ofNat 92, Char.ofNat 120, Char.ofNat 48, Char.ofNat 48]),
   (Char.ofNat 92, [Char.ofNat 92, Char.ofNat 92]),
   (Char.ofNat 39, [Char.ofNat 92, Char.ofNat 39]),
   (Char.ofNat 8, [Char.ofNat 92, Char.ofNat 98]),
   (Char.ofNat 12, [Char.ofNat 92, Char.ofNat 102]),
   (Char.ofNat 10, [Char.ofNat 92, Char.ofNat 110]),
   (Char.ofNat 13, [Char.ofNat 92, Char.ofNat 114]),
   (Char.ofNat 9, [Char.ofNat 92, Char.ofNat 116])]

/-- (file, literal text before, literal text after) of each f-string embedding the escaped text -/
def enumSites : List (String × String × String) :=
  [("parser/jsonschema.py", "'", "'"),
   ("parser/graphql.py", "'", "'")]

/-- (file, literal text before, literal text after) of each f-string embedding the escaped text -/
def patternSites : List (String × String × String) :=
  [("model/pydantic/types.py", "r'", "'")]

/-- `escape_docstring`: the (old, new) pairs of its chain of str.replace calls, in application order -/
def docstringReplaces : List (List Char × List Char) :=
  [([Char.ofNat 92], [Char.ofNat 92, Char.ofNat 92]),
   ([Char.ofNat 34, Char.ofNat 34, Char.ofNat 34], [Char.ofNat 34, Char.ofNat 34, Char.ofNat 92, Char.ofNat 34]),
   ([Char.ofNat 0], [Char.ofNat 92, Char.ofNat 120, Char.ofNat 48, Char.ofNat 48])]

end Dcg.Gen.EscTables
