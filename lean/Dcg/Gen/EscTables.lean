-- GENERATED from /repo by /verif/vlib/translate on every run. Do not edit.
namespace Dcg.Gen.EscTables

def enumTable : List (Char × List Char) :=
  [(Char.ofNat 0, [Char.ofNat 92, Char.ofNat 120, Char.ofNat 48, Char.ofNat 48]),
   (Char.ofNat 92, [Char.ofNat 92, Char.ofNat 92]),
   (Char.ofNat 39, [Char.ofNat 92, Char.ofNat 39]),
   (Char.ofNat 8, [Char.ofNat 92, Char.ofNat 98]),
   (Char.ofNat 12, [Char.ofNat 92, Char.ofNat 102]),
   (Char.ofNat 10, [Char.ofNat 92, Char.ofNat 110]),
   (Char.ofNat 13, [Char.ofNat 92, Char.ofNat 114]),
   (Char.ofNat 9, [Char.ofNat 92, Char.ofNat 116])]

/-- the module has an `escape_characters` translate table (false: the table above is empty because there is none) -/
def enumTablePresent : Bool := true

def typedDictKeyTable : List (Char × List Char) :=
  [(Char.ofNat 0, [Char.ofNat 92, Char.ofNat 120, Char.ofNat 48, Char.ofNat 48]),
   (Char.ofNat 92, [Char.ofNat 92, Char.ofNat 92]),
   (Char.ofNat 39, [Char.ofNat 92, Char.ofNat 39]),
   (Char.ofNat 8, [Char.ofNat 92, Char.ofNat 98]),
   (Char.ofNat 12, [Char.ofNat 92, Char.ofNat 102]),
   (Char.ofNat 10, [Char.ofNat 92, Char.ofNat 110]),
   (Char.ofNat 13, [Char.ofNat 92, Char.ofNat 114]),
   (Char.ofNat 9, [Char.ofNat 92, Char.ofNat 116])]

/-- the module has an `escape_characters` translate table (false: the table above is empty because there is none) -/
def typedDictKeyTablePresent : Bool := true

/-- `model/typed_dict.py DataModelField.key`: source of the returned expression, and whether it is
`<wire name>.translate(escape_characters)` with the module's own table (the reviewed shape) -/
def typedDictKeySource : String := "key.translate(escape_characters)"
def typedDictKeyUsesTable : Bool := true

/-- (file, literal text before, literal text after) of each f-string embedding the escaped text -/
def enumSites : List (String × String × String) :=
  [("parser/jsonschema.py", "'", "'"),
   ("parser/graphql.py", "'", "'")]

/-- (file, literal text before, literal text after) of each f-string embedding the escaped text -/
def patternSites : List (String × String × String) :=
  [("model/pydantic/types.py", "r'", "'")]

/-- `escape_docstring`: the (old, new) pairs of its chain of str.replace calls, in application order -/
def docstringReplaces : List (List Char × List Char) :=
  [([Char.ofNat 92], [Char.ofNat 92, Char.ofNat 92]),
   ([Char.ofNat 34, Char.ofNat 34, Char.ofNat 34], [Char.ofNat 34, Char.ofNat 34, Char.ofNat 92, Char.ofNat 34]),
   ([Char.ofNat 0], [Char.ofNat 92, Char.ofNat 120, Char.ofNat 48, Char.ofNat 48])]

end Dcg.Gen.EscTables
