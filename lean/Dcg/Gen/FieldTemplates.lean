-- GENERATED from /repo by /verif/vlib/translate on every run. Do not edit.
namespace Dcg.Gen.FieldTemplates

/-- what a template condition may look at -/
inductive Atom where
  | required | field | annotated | reprDefaultIsNone | stripDefaultNone | dataTypeIsOptional | nullable | docstring | hasFields
  | other (text : String)
  deriving Repr, DecidableEq

inductive BoolExpr where
  | tt
  | atom (a : Atom)
  | not (e : BoolExpr)
  | and (a b : BoolExpr)
  | or (a b : BoolExpr)
  deriving Repr, DecidableEq

/-- which `{{ field.… }}` output a rule is about; `other` = an output this translator cannot place -/
inductive Emit where
  | typeHint | annotated | assignField | assignDefault | other
  deriving Repr, DecidableEq

structure Rule where
  emit : Emit
  cond : BoolExpr
  line : Nat
  deriving Repr, DecidableEq

/-- pydantic/BaseModel.jinja2 -/
def pydanticV1 : List Rule := [
  ⟨.typeHint, (.and (.not (.atom .annotated)) (.atom .field)), 20⟩,
  ⟨.assignField, (.and (.not (.atom .annotated)) (.atom .field)), 20⟩,
  ⟨.annotated, (.and (.not (.and (.not (.atom .annotated)) (.atom .field))) (.atom .annotated)), 23⟩,
  ⟨.typeHint, (.and (.not (.and (.not (.atom .annotated)) (.atom .field))) (.not (.atom .annotated))), 25⟩,
  ⟨.assignDefault, (.and (.not (.and (.not (.atom .annotated)) (.atom .field))) (.not (.or (.atom .required) (.and (.atom .reprDefaultIsNone) (.atom .stripDefaultNone))))), 28⟩
]

/-- pydantic/BaseModel.jinja2: condition(s) under which the member loop is reached (exactly one loop expected) -/
def pydanticV1Guard : List BoolExpr := [.tt]

/-- pydantic_v2/BaseModel.jinja2 -/
def pydanticV2 : List Rule := [
  ⟨.typeHint, (.and (.not (.atom .annotated)) (.atom .field)), 28⟩,
  ⟨.assignField, (.and (.not (.atom .annotated)) (.atom .field)), 28⟩,
  ⟨.annotated, (.and (.not (.and (.not (.atom .annotated)) (.atom .field))) (.atom .annotated)), 31⟩,
  ⟨.typeHint, (.and (.not (.and (.not (.atom .annotated)) (.atom .field))) (.not (.atom .annotated))), 33⟩,
  ⟨.assignDefault, (.and (.not (.and (.not (.atom .annotated)) (.atom .field))) (.or (.not (.or (.atom .required) (.and (.atom .reprDefaultIsNone) (.atom .stripDefaultNone)))) (.atom .dataTypeIsOptional))), 36⟩
]

/-- pydantic_v2/BaseModel.jinja2: condition(s) under which the member loop is reached (exactly one loop expected) -/
def pydanticV2Guard : List BoolExpr := [(.not (.and (.and (.and (.atom (.other "(Compare base_class [(Operand 'ne' 'BaseModel')])")) (.atom (.other "(Compare ',' [(Operand 'notin' base_class)])"))) (.not (.atom .hasFields))) (.not (.atom (.other "config")))))]

/-- dataclass.jinja2 -/
def dataclass : List Rule := [
  ⟨.typeHint, (.atom .field), 20⟩,
  ⟨.assignField, (.atom .field), 20⟩,
  ⟨.typeHint, (.not (.atom .field)), 22⟩,
  ⟨.assignDefault, (.and (.not (.atom .field)) (.not (.or (.atom .required) (.and (.atom .reprDefaultIsNone) (.atom .stripDefaultNone))))), 24⟩
]

/-- dataclass.jinja2: condition(s) under which the member loop is reached (exactly one loop expected) -/
def dataclassGuard : List BoolExpr := [.tt]

/-- msgspec.jinja2 -/
def msgspec : List Rule := [
  ⟨.typeHint, (.and (.not (.atom .annotated)) (.atom .field)), 21⟩,
  ⟨.assignField, (.and (.not (.atom .annotated)) (.atom .field)), 21⟩,
  ⟨.annotated, (.and (.not (.and (.not (.atom .annotated)) (.atom .field))) (.and (.atom .annotated) (.not (.atom .field)))), 24⟩,
  ⟨.annotated, (.and (.and (.not (.and (.not (.atom .annotated)) (.atom .field))) (.not (.and (.atom .annotated) (.not (.atom .field))))) (.and (.atom .annotated) (.atom .field))), 26⟩,
  ⟨.assignField, (.and (.and (.not (.and (.not (.atom .annotated)) (.atom .field))) (.not (.and (.atom .annotated) (.not (.atom .field))))) (.and (.atom .annotated) (.atom .field))), 26⟩,
  ⟨.typeHint, (.and (.and (.not (.and (.not (.atom .annotated)) (.atom .field))) (.not (.and (.atom .annotated) (.not (.atom .field))))) (.not (.and (.atom .annotated) (.atom .field)))), 28⟩,
  ⟨.assignDefault, (.and (.not (.and (.not (.atom .annotated)) (.atom .field))) (.and (.not (.atom .field)) (.or (.or (.not (.atom .required)) (.atom .dataTypeIsOptional)) (.atom .nullable)))), 31⟩
]

/-- msgspec.jinja2: condition(s) under which the member loop is reached (exactly one loop expected) -/
def msgspecGuard : List BoolExpr := [.tt]

/-- TypedDictClass.jinja2 -/
def typedDictClass : List Rule := [
  ⟨.typeHint, .tt, 11⟩
]

/-- TypedDictClass.jinja2: condition(s) under which the member loop is reached (exactly one loop expected) -/
def typedDictClassGuard : List BoolExpr := [.tt]

/-- TypedDictFunction.jinja2 -/
def typedDictFunction : List Rule := [
  ⟨.typeHint, .tt, 13⟩
]

/-- TypedDictFunction.jinja2: condition(s) under which the member loop is reached (exactly one loop expected) -/
def typedDictFunctionGuard : List BoolExpr := [.tt]

end Dcg.Gen.FieldTemplates
