-- GENERATED from /repo by /verif/vlib/translate on every run. Do not edit.
namespace Dcg.Gen.EnumSites

/-- the class registered for `ModelType.ENUM` in `DEFAULT_FIELD_NAME_RESOLVERS` -/
def resolverClass : String := "EnumFieldNameResolver"
/-- its `get_valid_name` has the reviewed shape `return super().get_valid_name(name=…, excludes=…, …)` -/
def resolverRecognised : Bool := true
/-- names the resolver itself adds to the excludes of every call -/
def resolverExcludes : List (List Char) := [[Char.ofNat 109, Char.ofNat 114, Char.ofNat 111] /- mro -/]
/-- names the resolver rewrites before sanitising (`"b" if name == "a" else name`) -/
def resolverRenames : List (List Char × List Char) := [([Char.ofNat 109, Char.ofNat 114, Char.ofNat 111], [Char.ofNat 109, Char.ofNat 114, Char.ofNat 111, Char.ofNat 95]) /- mro -> mro_ -/]

/-- a function that asks the enum resolver for member names -/
structure Site where
  name : String
  /-- the shape of the function was recognised by the translator -/
  recognised : Bool
  /-- what the excludes set holds before the first member -/
  init : List (List Char)
  /-- that set is what is passed as `excludes=` -/
  passesSet : Bool
  /-- every returned name is added to it -/
  addsResult : Bool

def sites : List Site := [
  ⟨"GraphQLParser.parse_enum", true, [], true, true⟩,
  ⟨"JsonSchemaParser.parse_enum", true, [], true, true⟩
]

end Dcg.Gen.EnumSites
