-- GENERATED from /repo by /verif/vlib/translate on every run. Do not edit.
import Dcg.Model.Write
namespace Dcg.Gen.GenerateSteps
open Dcg.Model.Write

/-- calls treated as unable to fail (trusted list of the translator) -/
def benignCalls : List String :=
  ["as_posix", "bool", "cast", "dict", "exists", "format", "get", "getattr", "geturl", "is_dir", "is_file", "isinstance", "isoformat", "items", "joinpath", "keys", "len", "list", "now", "print", "replace", "rstrip", "set", "sorted", "str", "strip", "tuple", "values"]

/-- the only calls treated as unable to fail from the first file-system effect on (plus `.format` on a literal-built variable) -/
def strictBenignCalls : List String :=
  ["exists", "is_dir", "is_file", "rstrip", "strip"]

/-- `generate()` up to the write loop -/
def pre : List Step :=
  [⟨.mayRaise, "DefaultPutDict", .none⟩,
   ⟨.benign, "isinstance", .none⟩,
   ⟨.benign, "isinstance", .none⟩,
   ⟨.mayRaise, "import datamodel_code_generator.http", .none⟩,
   ⟨.benign, "input_.geturl", .none⟩,
   ⟨.mayRaise, "remote_text_cache.get_or_put", .none⟩,
   ⟨.benign, "isinstance", .none⟩,
   ⟨.mayRaise, "input_.is_absolute", .none⟩,
   ⟨.mayRaise, "input_.expanduser", .none⟩,
   ⟨.mayRaise, "input_.expanduser().resolve", .none⟩,
   ⟨.benign, "isinstance", .none⟩,
   ⟨.mayRaise, "get_first_file", .none⟩,
   ⟨.mayRaise, "get_first_file().read_text", .none⟩,
   ⟨.benign, "isinstance", .none⟩,
   ⟨.mayRaise, "assert", .none⟩,
   ⟨.mayRaise, "infer_input_type", .none⟩,
   ⟨.benign, "inferred_message.format", .none⟩,
   ⟨.benign, "print(console)", .none⟩,
   ⟨.mayRaise, "Error", .none⟩,
   ⟨.raise, "Error", .none⟩,
   ⟨.mayRaise, "import datamodel_code_generator.parser.openapi", .none⟩,
   ⟨.mayRaise, "import datamodel_code_generator.parser.graphql", .none⟩,
   ⟨.mayRaise, "import datamodel_code_generator.parser.jsonschema", .none⟩,
   ⟨.mayRaise, "import json", .none⟩,
   ⟨.benign, "isinstance", .none⟩,
   ⟨.benign, "input_.is_dir", .none⟩,
   ⟨.mayRaise, "Error", .none⟩,
   ⟨.raise, "Error", .none⟩,
   ⟨.mayRaise, "import csv", .none⟩,
   ⟨.benign, "isinstance", .none⟩,
   ⟨.mayRaise, "input_.open(read)", .none⟩,
   ⟨.mayRaise, "get_header_and_first_line", .none⟩,
   ⟨.mayRaise, "import io", .none⟩,
   ⟨.mayRaise, "io.StringIO", .none⟩,
   ⟨.mayRaise, "get_header_and_first_line", .none⟩,
   ⟨.benign, "isinstance", .none⟩,
   ⟨.mayRaise, "input_.read_text", .none⟩,
   ⟨.mayRaise, "load_yaml", .none⟩,
   ⟨.mayRaise, "assert", .none⟩,
   ⟨.mayRaise, "load_yaml", .none⟩,
   ⟨.benign, "isinstance", .none⟩,
   ⟨.mayRaise, "input_.read_text", .none⟩,
   ⟨.mayRaise, "json.loads", .none⟩,
   ⟨.mayRaise, "assert", .none⟩,
   ⟨.mayRaise, "json.loads", .none⟩,
   ⟨.mayRaise, "import ast", .none⟩,
   ⟨.benign, "isinstance", .none⟩,
   ⟨.mayRaise, "input_.read_text", .none⟩,
   ⟨.mayRaise, "ast.literal_eval", .none⟩,
   ⟨.benign, "cast", .none⟩,
   ⟨.mayRaise, "Error", .none⟩,
   ⟨.raise, "Error", .none⟩,
   ⟨.mayRaise, "Error", .none⟩,
   ⟨.raise, "Error", .none⟩,
   ⟨.mayRaise, "import genson", .none⟩,
   ⟨.mayRaise, "SchemaBuilder", .none⟩,
   ⟨.mayRaise, "builder.add_object", .none⟩,
   ⟨.mayRaise, "builder.to_schema", .none⟩,
   ⟨.mayRaise, "json.dumps", .none⟩,
   ⟨.benign, "isinstance", .none⟩,
   ⟨.mayRaise, "Error", .none⟩,
   ⟨.raise, "Error", .none⟩,
   ⟨.mayRaise, "import datamodel_code_generator.model", .none⟩,
   ⟨.mayRaise, "get_data_model_types", .none⟩,
   ⟨.benign, "isinstance", .none⟩,
   ⟨.mayRaise, "assert", .none⟩,
   ⟨.benign, "isinstance", .none⟩,
   ⟨.benign, "input_.is_file", .none⟩,
   ⟨.mayRaise, "parser_class", .none⟩,
   ⟨.chdirEnter, "chdir(output)", .none⟩,
   ⟨.mayRaise, "parser.parse", .none⟩,
   ⟨.chdirExit, "", .none⟩,
   ⟨.benign, "isinstance", .none⟩,
   ⟨.benign, "isinstance", .none⟩,
   ⟨.benign, "input_.geturl", .none⟩,
   ⟨.benign, "getattr", .none⟩,
   ⟨.benign, "isinstance", .none⟩,
   ⟨.mayRaise, "assert", .none⟩,
   ⟨.mayRaise, "Error", .none⟩,
   ⟨.raise, "Error", .none⟩,
   ⟨.benign, "isinstance", .none⟩,
   ⟨.mayRaise, "Error", .none⟩,
   ⟨.raise, "Error", .none⟩,
   ⟨.mayRaise, "Error", .none⟩,
   ⟨.raise, "Error", .none⟩,
   ⟨.benign, "output.joinpath", .none⟩,
   ⟨.benign, "result.source.as_posix", .none⟩,
   ⟨.benign, "str", .none⟩,
   ⟨.benign, "results.items", .none⟩,
   ⟨.benign, "sorted", .none⟩,
   ⟨.benign, "datetime.now", .none⟩,
   ⟨.benign, "datetime.now().replace", .none⟩,
   ⟨.benign, "datetime.now().replace().isoformat", .none⟩,
   ⟨.mayRaise, "custom_file_header_path.read_text", .none⟩,
   ⟨.mayRaise, "get_version", .none⟩,
   ⟨.benign, "modules.items", .none⟩,
   ⟨.loopBegin, "modules.items()", .none⟩,
   ⟨.benign, "header.format", .none⟩,
   ⟨.encodeCheck, "custom_file_header or header.format(filename)", .perModule⟩,
   ⟨.encodeCheck, "body", .perModule⟩,
   ⟨.loopEnd, "", .none⟩,
   ⟨.benign, "modules.items", .none⟩]

/-- body of the write loop (`for path, (body, filename) in modules.items()`), once per module -/
def loopBody : List Step :=
  [⟨.benign, "path.parent.exists", .none⟩,
   ⟨.mkdir, "path.parent.mkdir", .loopPathParent⟩,
   ⟨.openW, "path.open('wt')", .loopPath⟩,
   ⟨.benign, "header.format(literal-built)", .none⟩,
   ⟨.write, "custom_file_header or header.format(filename)", .loopPath⟩,
   ⟨.write, "", .loopPath⟩,
   ⟨.benign, "body.rstrip", .none⟩,
   ⟨.write, "body", .loopPath⟩,
   ⟨.close, "file.close", .loopPath⟩]

/-- `generate()` after the write loop -/
def post : List Step :=
  []

/-- what the write loop iterates over -/
def loopIter : String := "modules.items()"

/-- key expressions of the dict the write loop iterates over -/
def moduleKeyExprs : List String :=
  ["output", "output.joinpath(*name)"]

/-- `chdir(None)` -/
def chdirNone : List CStep :=
  [⟨.yield, ""⟩]

/-- `chdir(path)`, path not None -/
def chdirSome : List CStep :=
  [⟨.saveCwd, "prev_cwd"⟩,
   ⟨.tryBegin, ""⟩,
   ⟨.chdirTarget, "path if path.is_dir() else path.parent"⟩,
   ⟨.yield, ""⟩,
   ⟨.finallyBegin, ""⟩,
   ⟨.chdirSaved, "prev_cwd"⟩,
   ⟨.tryEnd, ""⟩]

/-- `chdir` is a `contextlib.contextmanager` generator -/
def chdirIsContextManager : Bool := true

/-- the arguments `generate()` passes to `parser.parse(…)` (`<positional>` / keyword names) -/
def parseCallArguments : List String :=
  []

/-- every `raise` reachable from `generate()` (helpers of `__init__.py` inlined under the call site's conditions): function, exception,
message, guarding conditions in order, after `parser.parse()`?, before the first file-system effect? -/
def refusals : List Refusal :=
  [⟨"get_first_file", "Error", "File not found", ["input_file_type == InputFileType.Auto"], false, true⟩,
   ⟨"generate", "Error", "Invalid file format", ["input_file_type == InputFileType.Auto", "except Exception"], false, true⟩,
   ⟨"generate", "Error", "f'Input must be a file for {input_file_type}'", ["not (input_file_type == InputFileType.OpenAPI)", "not (input_file_type == InputFileType.GraphQL)", "input_file_type in RAW_DATA_TYPES", "isinstance(input_, Path) and input_.is_dir()"], false, true⟩,
   ⟨"generate", "Error", "f'Unsupported input file type: {input_file_type}'", ["not (input_file_type == InputFileType.OpenAPI)", "not (input_file_type == InputFileType.GraphQL)", "input_file_type in RAW_DATA_TYPES", "not (input_file_type == InputFileType.CSV)", "not (input_file_type == InputFileType.Yaml)", "not (input_file_type == InputFileType.Json)", "not (input_file_type == InputFileType.Dict)"], false, true⟩,
   ⟨"generate", "Error", "Invalid file format", ["not (input_file_type == InputFileType.OpenAPI)", "not (input_file_type == InputFileType.GraphQL)", "input_file_type in RAW_DATA_TYPES", "except Exception"], false, true⟩,
   ⟨"generate", "Error", "union_mode is only supported for pydantic_v2.BaseModel", ["union_mode is not None", "not (output_model_type == DataModelType.PydanticV2BaseModel)"], false, true⟩,
   ⟨"generate", "Error", "Models not found in the input data", ["not results"], true, true⟩,
   ⟨"generate", "Error", "Modular references require an output directory", ["not (isinstance(results, str))", "output is None"], true, true⟩,
   ⟨"generate", "Error", "Modular references require an output directory, not a file", ["not (isinstance(results, str))", "output.suffix"], true, true⟩]

end Dcg.Gen.GenerateSteps
