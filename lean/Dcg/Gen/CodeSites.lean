-- GENERATED from /repo by /verif/vlib/translate on every run. Do not edit.
namespace Dcg.Gen.CodeSites

/-- (file, keyword name, form of the value expression, expressions embedded between the hand-written quotes) of every
`add_base_class_kwarg(name, value)` call: the values of the `{{ key }}={{ value }}` sites of msgspec.jinja2 -/
def kwargSites : List (String × String × String × List String) := [
  ("model/msgspec.py", "kw_only", "const", []),
  ("parser/base.py", "tag_field", "single-quoted", ["field_name"]),
  ("parser/base.py", "tag", "represented_default", [])
]

/-- (function, expression, is a call of `self.get_field_extra_key`) for every expression that becomes a key of the
field extras (pydantic v1: a keyword NAME of `Field(...)`) -/
def fieldExtraKeySites : List (String × String × Bool) := [
  ("get_field_extras", "self.get_field_extra_key(k.lstrip('x-') if k in self.field_extra_keys_without_x_prefix else k)", true),
  ("get_field_extras", "self.get_field_extra_key(k.lstrip('x-') if k in self.field_extra_keys_without_x_prefix else k)", true)
]

/-- (guard, form, source) of every return path of every function bound to `get_field_extra_key` in `JsonSchemaParser`:
guard = the `can_have_extra_keys` branch the binding stands in; form = `resolver` (the field-name resolver applied to the
untouched key, first component), `identity` (the key itself) or `other` -/
def fieldExtraKeySanitiser : List (String × String × String) := [
  ("can_have_extra_keys", "resolver", "self.model_resolver.get_valid_field_name_and_alias(key)[0]"),
  ("not can_have_extra_keys", "identity", "key")
]

end Dcg.Gen.CodeSites
