-- GENERATED from /repo by /verif/vlib/translate on every run. Do not edit.
namespace Dcg.Gen.CodeSites

/-- (file, keyword name, form of the value expression, expressions embedded between the hand-written quotes) of every
`add_base_class_kwarg(name, value)` call: the values of the `{{ key }}={{ value }}` sites of msgspec.jinja2 -/
def kwargSites : List (String × String × String × List String) := [
  ("model/msgspec.py", "kw_only", "const", []),
  ("parser/base.py", "tag_field", "single-quoted", ["field_name"]),
  ("parser/base.py", "tag", "represented_default", [])
]

/-- (function, expression, is a call of `self.get_field_extra_key`) for every expression that becomes a key of the
field extras (pydantic v1: a keyword NAME of `Field(...)`) -/
def fieldExtraKeySites : List (String × String × Bool) := [
  ("get_field_extras", "self.get_field_extra_key(k.lstrip('x-') if k in self.field_extra_keys_without_x_prefix else k)", true),
  ("get_field_extras", "self.get_field_extra_key(k.lstrip('x-') if k in self.field_extra_keys_without_x_prefix else k)", true)
]

end Dcg.Gen.CodeSites
