-- GENERATED from /repo by /verif/vlib/translate on every run. Do not edit.
import Dcg.Model.ParsePasses
namespace Dcg.Gen.ParsePasses
open Dcg.Model.ParsePasses

/-- was the per-module loop `for module_, models in module_models:` of `Parser.parse` found (exactly once)? -/
def recognised : Bool := true

def problem : String := ""

/-- the calls `self.__xxx(...)` of that loop in source order: the pass, and whether the call is guarded (nested in an
`if`/`for`/`try`/… of the loop body, or its value is used) -/
def calls : List Call :=
  [⟨.aliasShadowedImports, false⟩,
   ⟨.overrideRequiredField, false⟩,
   ⟨.replaceUniqueListToSet, false⟩,
   ⟨.changeFromImport, false⟩,
   ⟨.extractInheritedEnum, false⟩,
   ⟨.setReferenceDefaultValueToField, false⟩,
   ⟨.reuseModel, false⟩,
   ⟨.collapseRootModels, false⟩,
   ⟨.setDefaultEnumMember, false⟩,
   ⟨.sortModels, false⟩,
   ⟨.changeFieldName, false⟩,
   ⟨.applyDiscriminatorType, false⟩,
   ⟨.setOneLiteralOnDefault, false⟩]

end Dcg.Gen.ParsePasses
