-- GENERATED from /repo by /verif/vlib/translate on every run. Do not edit.
import Dcg.Model.Key
namespace Dcg.Gen.SetSites

structure SetSite where
  file : Nat
  func : Nat
  expr : Nat
  kind : Nat
  consumer : Nat
  isSorted : Bool
  deriving Repr, DecidableEq

/-- every order-sensitive consumption of a set-typed expression (source order; line numbers are not part of the table) -/
def setSites : List SetSite :=
  [{ file := k! "imports.py", func := k! "Imports._set_alias", expr := k! "imports", kind := k! "comp:list", consumer := k! "", isSorted := true },
   { file := k! "imports.py", func := k! "Imports._set_alias", expr := k! "imports", kind := k! "call:sorted", consumer := k! "", isSorted := true },
   { file := k! "model/base.py", func := k! "DataModel.reference_classes", expr := k! "f.unresolved_types", kind := k! "comp:set", consumer := k! "", isSorted := false },
   { file := k! "parser/base.py", func := k! "sort_data_models", expr := k! "item.reference_classes", kind := k! "format", consumer := k! "", isSorted := false },
   { file := k! "parser/base.py", func := k! "Parser.__sort_models", expr := k! "v", kind := k! "comp:set", consumer := k! "", isSorted := false },
   { file := k! "parser/base.py", func := k! "Parser.__postprocess_result_modules", expr := k! "folders", kind := k! "for", consumer := k! "", isSorted := false },
   { file := k! "parser/base.py", func := k! "Parser.__change_imported_model_name", expr := k! "import_", kind := k! "comp:set", consumer := k! "", isSorted := false },
   { file := k! "parser/base.py", func := k! "Parser.parse", expr := k! "imports_", kind := k! "comp:list", consumer := k! "", isSorted := false },
   { file := k! "parser/jsonschema.py", func := k! "JsonSchemaParser._resolve_unparsed_json_pointer", expr := k! "reserved_refs", kind := k! "call:sorted", consumer := k! "", isSorted := true },
   { file := k! "parser/jsonschema.py", func := k! "JsonSchemaParser._resolve_unparsed_json_pointer", expr := k! "reserved_refs", kind := k! "for", consumer := k! "", isSorted := true },
   { file := k! "parser/jsonschema.py", func := k! "JsonSchemaParser._parse_file", expr := k! "reserved_refs", kind := k! "call:sorted", consumer := k! "", isSorted := true },
   { file := k! "parser/jsonschema.py", func := k! "JsonSchemaParser._parse_file", expr := k! "reserved_refs", kind := k! "for", consumer := k! "", isSorted := true },
   { file := k! "reference.py", func := k! "_BaseModel.__init__", expr := k! "self._pass_fields", kind := k! "for", consumer := k! "", isSorted := false }]

structure CacheSite where
  file : Nat
  func : Nat
  decorator : Nat
  params : List Nat
  free : List (Nat × Nat)
  selfAttrs : List Nat
  returns : Nat
  callers : Nat
  deriving Repr, DecidableEq

/-- every memoised function: parameters, free names with what binds them at module level, attributes read through self/cls,
return annotation, number of loads of its name in the package -/
def cacheSites : List CacheSite :=
  [{ file := k! "format.py", func := k! "PythonVersion._is_py_310_or_later", decorator := k! "cached_property", params := [k! "self"], free := [], selfAttrs := [k! "PY_39", k! "value"], returns := k! "bool", callers := 2 },
   { file := k! "format.py", func := k! "PythonVersion._is_py_311_or_later", decorator := k! "cached_property", params := [k! "self"], free := [], selfAttrs := [k! "PY_310", k! "PY_39", k! "value"], returns := k! "bool", callers := 1 },
   { file := k! "imports.py", func := k! "Import.from_full_path", decorator := k! "lru_cache", params := [k! "cls", k! "class_path"], free := [(k! "Import", k! "class")], selfAttrs := [], returns := k! "Import", callers := 78 },
   { file := k! "model/base.py", func := k! "ConstraintsBase.has_constraints", decorator := k! "cached_property", params := [k! "self"], free := [], selfAttrs := [k! "dict"], returns := k! "bool", callers := 2 },
   { file := k! "model/base.py", func := k! "get_template", decorator := k! "lru_cache", params := [k! "template_file_path"], free := [(k! "Environment", k! "import"), (k! "FileSystemLoader", k! "import"), (k! "TEMPLATE_DIR", k! "constant"), (k! "escape_docstring", k! "def")], selfAttrs := [], returns := k! "Template", callers := 2 },
   { file := k! "model/base.py", func := k! "TemplateBase.template_file_path", decorator := k! "cached_property", params := [k! "self"], free := [], selfAttrs := [], returns := k! "Path", callers := 6 },
   { file := k! "model/base.py", func := k! "TemplateBase.template", decorator := k! "cached_property", params := [k! "self"], free := [(k! "get_template", k! "def")], selfAttrs := [k! "template_file_path"], returns := k! "Template", callers := 2 },
   { file := k! "model/base.py", func := k! "DataModel.template_file_path", decorator := k! "cached_property", params := [k! "self"], free := [(k! "Path", k! "import")], selfAttrs := [k! "TEMPLATE_FILE_PATH", k! "_custom_template_dir"], returns := k! "Path", callers := 6 },
   { file := k! "model/base.py", func := k! "DataModel.path", decorator := k! "cached_property", params := [k! "self"], free := [], selfAttrs := [k! "reference"], returns := k! "str", callers := 222 },
   { file := k! "model/pydantic/base_model.py", func := k! "BaseModelBase.template_file_path", decorator := k! "cached_property", params := [k! "self"], free := [(k! "Path", k! "import")], selfAttrs := [k! "TEMPLATE_FILE_PATH", k! "_custom_template_dir"], returns := k! "Path", callers := 6 },
   { file := k! "parser/jsonschema.py", func := k! "JsonSchemaObject.is_object", decorator := k! "cached_property", params := [k! "self"], free := [], selfAttrs := [k! "allOf", k! "anyOf", k! "oneOf", k! "properties", k! "ref", k! "type"], returns := k! "bool", callers := 4 },
   { file := k! "parser/jsonschema.py", func := k! "JsonSchemaObject.is_array", decorator := k! "cached_property", params := [k! "self"], free := [], selfAttrs := [k! "items", k! "type"], returns := k! "bool", callers := 6 },
   { file := k! "parser/jsonschema.py", func := k! "JsonSchemaObject.ref_object_name", decorator := k! "cached_property", params := [k! "self"], free := [], selfAttrs := [k! "ref"], returns := k! "str", callers := 0 },
   { file := k! "parser/jsonschema.py", func := k! "JsonSchemaObject.has_default", decorator := k! "cached_property", params := [k! "self"], free := [], selfAttrs := [k! "__fields_set__", k! "extras"], returns := k! "bool", callers := 19 },
   { file := k! "parser/jsonschema.py", func := k! "JsonSchemaObject.has_constraint", decorator := k! "cached_property", params := [k! "self"], free := [], selfAttrs := [k! "__constraint_fields__", k! "__fields_set__"], returns := k! "bool", callers := 2 },
   { file := k! "parser/jsonschema.py", func := k! "JsonSchemaObject.ref_type", decorator := k! "cached_property", params := [k! "self"], free := [(k! "get_ref_type", k! "def")], selfAttrs := [k! "ref"], returns := k! "JSONReference | None", callers := 1 },
   { file := k! "parser/jsonschema.py", func := k! "JsonSchemaObject.type_has_null", decorator := k! "cached_property", params := [k! "self"], free := [], selfAttrs := [k! "type"], returns := k! "bool", callers := 9 },
   { file := k! "parser/jsonschema.py", func := k! "get_ref_type", decorator := k! "lru_cache", params := [k! "ref"], free := [(k! "JSONReference", k! "class"), (k! "is_url", k! "import")], selfAttrs := [], returns := k! "JSONReference", callers := 2 },
   { file := k! "parser/jsonschema.py", func := k! "JsonSchemaParser.schema_paths", decorator := k! "cached_property", params := [k! "self"], free := [], selfAttrs := [k! "SCHEMA_PATHS"], returns := k! "list[tuple[str, list[str]]]", callers := 1 },
   { file := k! "reference.py", func := k! "camel_to_snake", decorator := k! "lru_cache", params := [k! "string"], free := [(k! "_UNDER_SCORE_1", k! "constant"), (k! "_UNDER_SCORE_2", k! "constant")], selfAttrs := [], returns := k! "str", callers := 1 },
   { file := k! "reference.py", func := k! "get_singular_name", decorator := k! "lru_cache", params := [k! "name", k! "suffix"], free := [(k! "inflect_engine", k! "unknown")], selfAttrs := [], returns := k! "str", callers := 2 },
   { file := k! "reference.py", func := k! "snake_to_upper_camel", decorator := k! "lru_cache", params := [k! "word", k! "delimiter"], free := [], selfAttrs := [], returns := k! "str", callers := 4 },
   { file := k! "types.py", func := k! "_remove_none_from_type", decorator := k! "lru_cache", params := [k! "type_", k! "split_pattern", k! "delimiter"], free := [(k! "NONE", k! "constant"), (k! "re", k! "import")], selfAttrs := [], returns := k! "list[str]", callers := 0 },
   { file := k! "types.py", func := k! "get_optional_type", decorator := k! "lru_cache", params := [k! "type_", k! "use_union_operator"], free := [(k! "NONE", k! "constant"), (k! "OPTIONAL_PREFIX", k! "constant"), (k! "_remove_none_from_union", k! "def")], selfAttrs := [], returns := k! "str", callers := 7 }]

/-- mutable displays / constructor calls assigned in a class body: (file, class, attribute, kind) -/
def classMutables : List (Nat × Nat × Nat × Nat) :=
  [(k! "__main__.py", k! "Config", k! "strict_types", k! "list"),
   (k! "__main__.py", k! "Config", k! "openapi_scopes", k! "list"),
   (k! "model/base.py", k! "ConstraintsBase", k! "_exclude_fields", k! "set"),
   (k! "model/base.py", k! "DataModelFieldBase", k! "extras", k! "dict"),
   (k! "model/base.py", k! "DataModelFieldBase", k! "_exclude_fields", k! "set"),
   (k! "model/base.py", k! "DataModelFieldBase", k! "_pass_fields", k! "set"),
   (k! "model/dataclass.py", k! "DataModelField", k! "_FIELD_KEYS", k! "set"),
   (k! "model/msgspec.py", k! "DataModelField", k! "_FIELD_KEYS", k! "set"),
   (k! "model/msgspec.py", k! "DataModelField", k! "_META_FIELD_KEYS", k! "set"),
   (k! "model/msgspec.py", k! "DataModelField", k! "_COMPARE_EXPRESSIONS", k! "set"),
   (k! "model/pydantic/base_model.py", k! "DataModelField", k! "_EXCLUDE_FIELD_KEYS", k! "set"),
   (k! "model/pydantic/base_model.py", k! "DataModelField", k! "_COMPARE_EXPRESSIONS", k! "set"),
   (k! "model/pydantic_v2/base_model.py", k! "DataModelField", k! "_EXCLUDE_FIELD_KEYS", k! "set"),
   (k! "model/pydantic_v2/base_model.py", k! "DataModelField", k! "_DEFAULT_FIELD_KEYS", k! "set"),
   (k! "model/pydantic_v2/base_model.py", k! "BaseModel", k! "CONFIG_ATTRIBUTES", k! "list"),
   (k! "parser/graphql.py", k! "GraphQLParser", k! "references", k! "dict"),
   (k! "parser/graphql.py", k! "GraphQLParser", k! "parse_order", k! "list"),
   (k! "parser/jsonschema.py", k! "JsonSchemaObject", k! "__constraint_fields__", k! "set"),
   (k! "parser/jsonschema.py", k! "JsonSchemaObject", k! "oneOf", k! "list"),
   (k! "parser/jsonschema.py", k! "JsonSchemaObject", k! "anyOf", k! "list"),
   (k! "parser/jsonschema.py", k! "JsonSchemaObject", k! "allOf", k! "list"),
   (k! "parser/jsonschema.py", k! "JsonSchemaObject", k! "enum", k! "list"),
   (k! "parser/jsonschema.py", k! "JsonSchemaObject", k! "required", k! "list"),
   (k! "parser/jsonschema.py", k! "JsonSchemaParser", k! "SCHEMA_PATHS", k! "list"),
   (k! "parser/openapi.py", k! "ParameterObject", k! "content", k! "dict"),
   (k! "parser/openapi.py", k! "HeaderObject", k! "content", k! "dict"),
   (k! "parser/openapi.py", k! "RequestBodyObject", k! "content", k! "dict"),
   (k! "parser/openapi.py", k! "ResponseObject", k! "headers", k! "dict"),
   (k! "parser/openapi.py", k! "ResponseObject", k! "content", k! "dict"),
   (k! "parser/openapi.py", k! "Operation", k! "tags", k! "list"),
   (k! "parser/openapi.py", k! "Operation", k! "parameters", k! "list"),
   (k! "parser/openapi.py", k! "Operation", k! "responses", k! "dict"),
   (k! "parser/openapi.py", k! "ComponentsObject", k! "schemas", k! "dict"),
   (k! "parser/openapi.py", k! "ComponentsObject", k! "responses", k! "dict"),
   (k! "parser/openapi.py", k! "ComponentsObject", k! "examples", k! "dict"),
   (k! "parser/openapi.py", k! "ComponentsObject", k! "requestBodies", k! "dict"),
   (k! "parser/openapi.py", k! "ComponentsObject", k! "headers", k! "dict"),
   (k! "parser/openapi.py", k! "OpenAPIParser", k! "SCHEMA_PATHS", k! "list"),
   (k! "reference.py", k! "_BaseModel", k! "_exclude_fields", k! "set"),
   (k! "reference.py", k! "_BaseModel", k! "_pass_fields", k! "set"),
   (k! "reference.py", k! "Reference", k! "children", k! "list"),
   (k! "reference.py", k! "Reference", k! "_exclude_fields", k! "set"),
   (k! "types.py", k! "DataType", k! "data_types", k! "list"),
   (k! "types.py", k! "DataType", k! "literals", k! "list"),
   (k! "types.py", k! "DataType", k! "children", k! "list"),
   (k! "types.py", k! "DataType", k! "_exclude_fields", k! "set"),
   (k! "types.py", k! "DataType", k! "_pass_fields", k! "set")]

/-- package classes whose instances are shared process-wide (returned by a memoised function or bound to a
module-level name), with their declared fields -/
def memoClasses : List (Nat × List Nat) :=
  [(k! "Import", [k! "from_", k! "import_", k! "alias", k! "reference_path"])]

/-- every store to / delete of an attribute named like a field of such a class, and every dynamic setattr:
(file, function, target, attribute) -/
def memoValueWrites : List (Nat × Nat × Nat × Nat) :=
  [(k! "__init__.py", k! "snooper_to_methods.inner", k! "cls", k! "<dynamic>"),
   (k! "__main__.py", k! "Config.merge_args", k! "self", k! "<dynamic>"),
   (k! "imports.py", k! "Imports.__init__", k! "self.alias", k! "alias"),
   (k! "model/enum.py", k! "Member.__init__", k! "self.alias", k! "alias"),
   (k! "parser/base.py", k! "Parser.__alias_shadowed_imports", k! "data_type.import_", k! "import_"),
   (k! "parser/base.py", k! "Parser.__change_field_name", k! "field.alias", k! "alias"),
   (k! "parser/base.py", k! "Parser.__change_from_import", k! "data_type.alias", k! "alias"),
   (k! "parser/base.py", k! "Parser.__collapse_root_models", k! "d.alias", k! "alias"),
   (k! "parser/base.py", k! "Parser.__set_default_enum_member", k! "enum_member.alias", k! "alias"),
   (k! "parser/base.py", k! "Parser.__set_default_enum_member", k! "enum_member_.alias", k! "alias"),
   (k! "reference.py", k! "_BaseModel.__init__", k! "self", k! "<dynamic>")]

structure ListingSite where
  file : Nat
  func : Nat
  call : Nat
  isSorted : Bool
  key : Nat
  keyShape : Nat
  deriving Repr, DecidableEq

/-- every call of a directory-listing primitive (rglob/glob/iglob/iterdir/walk/fwalk/listdir/scandir): is it the first
argument of `sorted(`, with which `key=` (source text; empty = natural total order of the entries) and the shape of that
key as classified by the translator (natural | basename-then-path | other) -/
def listingSites : List ListingSite :=
  [{ file := k! "__init__.py", func := k! "get_first_file", call := k! "path.rglob", isSorted := true, key := k! "", keyShape := k! "natural" },
   { file := k! "parser/base.py", func := k! "Parser.iter_source", call := k! "self.source.rglob", isSorted := true, key := k! "lambda p: (p.name, p.as_posix())", keyShape := k! "basename-then-path" }]

/-- every call that reads or sets the process's working directory (Path.cwd, os.getcwd, os.chdir, abspath/realpath,
.absolute(), .resolve()) or starts a child process without `cwd=`: (file, function, called expression) -/
def cwdSites : List (Nat × Nat × Nat) :=
  [(k! "__init__.py", k! "chdir", k! "Path.cwd"),
   (k! "__init__.py", k! "chdir", k! "os.chdir"),
   (k! "__init__.py", k! "generate", k! "input_.expanduser().resolve"),
   (k! "__main__.py", k! "Config.validate_file", k! "Path(value).expanduser().resolve"),
   (k! "__main__.py", k! "Config.validate_path", k! "Path(value).expanduser().resolve"),
   (k! "__main__.py", k! "main", k! "Path.cwd"),
   (k! "format.py", k! "CodeFormatter.__init__", k! "Path.cwd"),
   (k! "format.py", k! "CodeFormatter.apply_ruff_lint", k! "subprocess.run"),
   (k! "format.py", k! "CodeFormatter.apply_ruff_formatter", k! "subprocess.run"),
   (k! "parser/base.py", k! "Parser.__init__", k! "source.absolute"),
   (k! "parser/base.py", k! "Parser.__init__", k! "Path.cwd"),
   (k! "parser/graphql.py", k! "GraphQLParser._get_context_source_path_parts", k! "self.base_path.joinpath(s.path).resolve"),
   (k! "parser/jsonschema.py", k! "JsonSchemaParser._get_context_source_path_parts", k! "self.base_path.joinpath(s.path).resolve"),
   (k! "reference.py", k! "ModelResolver.__init__", k! "Path.cwd"),
   (k! "reference.py", k! "ModelResolver.current_base_path_context", k! "(self._base_path / base_path).resolve"),
   (k! "reference.py", k! "ModelResolver.resolve_ref", k! "Path(self.current_base_path, file_path).resolve"),
   (k! "reference.py", k! "ModelResolver.resolve_ref", k! "target_path.resolve"),
   (k! "reference.py", k! "ModelResolver.is_after_load", k! "Path(self._base_path, file_part).resolve")]

end Dcg.Gen.SetSites
