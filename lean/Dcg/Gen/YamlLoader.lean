-- GENERATED from /repo by /verif/vlib/translate on every run. Do not edit.
namespace Dcg.Gen.YamlLoader

/-- (kind, tag / first character + tag / method name, what is registered there): every difference between the class
`load_yaml` passes as `Loader=` and the stock `yaml.SafeLoader` in the constructor, multi-constructor, implicit-resolver
and path-resolver tables, in the methods of the constructor and resolver layers, and in the MRO -/
def loaderOverrides : List (String × String × String) :=
  [("constructor", "tag:yaml.org,2002:timestamp", "SafeConstructor.construct_yaml_str")]

/-- yaml.SafeLoader.yaml_constructors: tag ↦ constructor (the stock table) -/
def stockConstructors : List (String × String) :=
  [("tag:yaml.org,2002:binary", "SafeConstructor.construct_yaml_binary"),
   ("tag:yaml.org,2002:bool", "SafeConstructor.construct_yaml_bool"),
   ("tag:yaml.org,2002:float", "SafeConstructor.construct_yaml_float"),
   ("tag:yaml.org,2002:int", "SafeConstructor.construct_yaml_int"),
   ("tag:yaml.org,2002:map", "SafeConstructor.construct_yaml_map"),
   ("tag:yaml.org,2002:null", "SafeConstructor.construct_yaml_null"),
   ("tag:yaml.org,2002:omap", "SafeConstructor.construct_yaml_omap"),
   ("tag:yaml.org,2002:pairs", "SafeConstructor.construct_yaml_pairs"),
   ("tag:yaml.org,2002:seq", "SafeConstructor.construct_yaml_seq"),
   ("tag:yaml.org,2002:set", "SafeConstructor.construct_yaml_set"),
   ("tag:yaml.org,2002:str", "SafeConstructor.construct_yaml_str"),
   ("tag:yaml.org,2002:timestamp", "SafeConstructor.construct_yaml_timestamp")]

/-- its entry for every other tag (key `None`) -/
def stockFallback : String := "SafeConstructor.construct_undefined"

/-- the class `load_yaml` passes as `Loader=` -/
def loaderBase : String := "yaml.cyaml.CSafeLoader"

/-- module-level statements of util.py that mention the loader classes (imports excluded) -/
def loaderSetup : List String :=
  ["SafeLoaderTemp = copy.deepcopy(SafeLoader)",
   "SafeLoaderTemp.yaml_constructors = copy.deepcopy(SafeLoader.yaml_constructors)",
   "SafeLoaderTemp.add_constructor('tag:yaml.org,2002:timestamp', SafeLoaderTemp.yaml_constructors['tag:yaml.org,2002:str'])",
   "SafeLoader = SafeLoaderTemp"]

/-- bodies of load_yaml and load_yaml_from_path -/
def loadYamlBody : List String :=
  ["load_yaml: return yaml.load(stream, Loader=SafeLoader)",
   "load_yaml_from_path: with path.open(encoding=encoding) as f: return load_yaml(f)"]

end Dcg.Gen.YamlLoader
