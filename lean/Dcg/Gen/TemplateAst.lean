-- GENERATED from /repo by /verif/vlib/translate on every run. Do not edit.
import Dcg.Model.TemplateSyntax
/-! Every `model/template/**/*.jinja2` of the working tree as a `List Tpl` (jinja2's own parse, white-space
control applied by jinja2). -/
namespace Dcg.Gen.TemplateAst
open Dcg.Model.TemplateSyntax

/-- keyword arguments of the project's `Environment(...)` other than the loader: {} -/
def environmentOptions : List String := []

/-- `Enum.jinja2` -/
def t_Enum : List Tpl := [
  .forIn ["decorator"] (.name "decorators") [
    .out (.name "decorator"),
    .text ['\n']],
  .text ['c', 'l', 'a', 's', 's', ' '],
  .out (.name "class_name"),
  .text ['('],
  .out (.name "base_class"),
  .text [')', ':'],
  .ite (.name "description") [
    .text ['\n', ' ', ' ', ' ', ' ', '"', '"', '"', '\n', ' ', ' ', ' ', ' '],
    .out (.filter (.filter (.name "description") .escapeDocstring) (.indent 4)),
    .text ['\n', ' ', ' ', ' ', ' ', '"', '"', '"']] [],
  .ite (.and (.not (.name "fields")) (.not (.name "description"))) [
    .text ['\n', ' ', ' ', ' ', ' ', 'p', 'a', 's', 's']] [],
  .forIn ["field"] (.name "fields") [
    .text ['\n', ' ', ' ', ' ', ' '],
    .out (.attr (.name "field") "name"),
    .text [' ', '=', ' '],
    .out (.attr (.name "field") "default"),
    .ite (.attr (.name "field") "docstring") [
      .text ['\n', ' ', ' ', ' ', ' ', '"', '"', '"', '\n', ' ', ' ', ' ', ' '],
      .out (.filter (.filter (.attr (.name "field") "docstring") .escapeDocstring) (.indent 4)),
      .text ['\n', ' ', ' ', ' ', ' ', '"', '"', '"']] []]]

/-- `Scalar.jinja2` -/
def t_Scalar : List Tpl := [
  .out (.name "class_name"),
  .text [':', ' ', 'T', 'y', 'p', 'e', 'A', 'l', 'i', 'a', 's', ' ', '=', ' '],
  .out (.name "py_type"),
  .ite (.name "description") [
    .text ['\n', '"', '"', '"', '\n'],
    .out (.filter (.name "description") .escapeDocstring),
    .text ['\n', '"', '"', '"']] []]

/-- `TypedDict.jinja2` -/
def t_TypedDict : List Tpl := [
  .ite (.name "is_functional_syntax") [
    .text ['\n'],
    .incl "TypedDictFunction.jinja2" "TypedDictFunction.jinja2" [
      .ite (.name "description") [
        .text ['\n', '"', '"', '"', '\n'],
        .out (.filter (.filter (.name "description") .escapeDocstring) (.indent 4)),
        .text ['\n', '"', '"', '"']] [],
      .text ['\n'],
      .out (.name "class_name"),
      .text [' ', '=', ' ', 'T', 'y', 'p', 'e', 'd', 'D', 'i', 'c', 't', '(', '\''],
      .out (.name "class_name"),
      .text ['\'', ',', ' ', '{'],
      .forIn ["field"] (.name "all_fields") [
        .ite (.attr (.name "field") "docstring") [
          .forIn ["line"] (.mcall (.attr (.name "field") "docstring") "splitlines" "") [
            .text ['\n', ' ', ' ', ' ', ' ', '#', ' '],
            .out (.filter (.name "line") (.replace [Char.ofNat 0] ['\\', 'x', '0', '0']))]] [],
        .text ['\n', ' ', ' ', ' ', ' ', '\''],
        .out (.attr (.name "field") "key"),
        .text ['\'', ':', ' '],
        .out (.attr (.name "field") "type_hint"),
        .text [',']],
      .text ['}', ')', '\n']]] [
    .text ['\n'],
    .incl "TypedDictClass.jinja2" "TypedDictClass.jinja2" [
      .text ['c', 'l', 'a', 's', 's', ' '],
      .out (.name "class_name"),
      .text ['('],
      .out (.name "base_class"),
      .text [')', ':'],
      .ite (.name "description") [
        .text ['\n', ' ', ' ', ' ', ' ', '"', '"', '"', '\n', ' ', ' ', ' ', ' '],
        .out (.filter (.filter (.name "description") .escapeDocstring) (.indent 4)),
        .text ['\n', ' ', ' ', ' ', ' ', '"', '"', '"']] [],
      .ite (.and (.not (.name "fields")) (.not (.name "description"))) [
        .text ['\n', ' ', ' ', ' ', ' ', 'p', 'a', 's', 's']] [],
      .forIn ["field"] (.name "fields") [
        .text ['\n', ' ', ' ', ' ', ' '],
        .out (.attr (.name "field") "name"),
        .text [':', ' '],
        .out (.attr (.name "field") "type_hint"),
        .ite (.attr (.name "field") "docstring") [
          .text ['\n', ' ', ' ', ' ', ' ', '"', '"', '"', '\n', ' ', ' ', ' ', ' '],
          .out (.filter (.filter (.attr (.name "field") "docstring") .escapeDocstring) (.indent 4)),
          .text ['\n', ' ', ' ', ' ', ' ', '"', '"', '"']] []]]]]

/-- `TypedDictClass.jinja2` -/
def t_TypedDictClass : List Tpl := [
  .text ['c', 'l', 'a', 's', 's', ' '],
  .out (.name "class_name"),
  .text ['('],
  .out (.name "base_class"),
  .text [')', ':'],
  .ite (.name "description") [
    .text ['\n', ' ', ' ', ' ', ' ', '"', '"', '"', '\n', ' ', ' ', ' ', ' '],
    .out (.filter (.filter (.name "description") .escapeDocstring) (.indent 4)),
    .text ['\n', ' ', ' ', ' ', ' ', '"', '"', '"']] [],
  .ite (.and (.not (.name "fields")) (.not (.name "description"))) [
    .text ['\n', ' ', ' ', ' ', ' ', 'p', 'a', 's', 's']] [],
  .forIn ["field"] (.name "fields") [
    .text ['\n', ' ', ' ', ' ', ' '],
    .out (.attr (.name "field") "name"),
    .text [':', ' '],
    .out (.attr (.name "field") "type_hint"),
    .ite (.attr (.name "field") "docstring") [
      .text ['\n', ' ', ' ', ' ', ' ', '"', '"', '"', '\n', ' ', ' ', ' ', ' '],
      .out (.filter (.filter (.attr (.name "field") "docstring") .escapeDocstring) (.indent 4)),
      .text ['\n', ' ', ' ', ' ', ' ', '"', '"', '"']] []]]

/-- `TypedDictFunction.jinja2` -/
def t_TypedDictFunction : List Tpl := [
  .ite (.name "description") [
    .text ['\n', '"', '"', '"', '\n'],
    .out (.filter (.filter (.name "description") .escapeDocstring) (.indent 4)),
    .text ['\n', '"', '"', '"']] [],
  .text ['\n'],
  .out (.name "class_name"),
  .text [' ', '=', ' ', 'T', 'y', 'p', 'e', 'd', 'D', 'i', 'c', 't', '(', '\''],
  .out (.name "class_name"),
  .text ['\'', ',', ' ', '{'],
  .forIn ["field"] (.name "all_fields") [
    .ite (.attr (.name "field") "docstring") [
      .forIn ["line"] (.mcall (.attr (.name "field") "docstring") "splitlines" "") [
        .text ['\n', ' ', ' ', ' ', ' ', '#', ' '],
        .out (.filter (.name "line") (.replace [Char.ofNat 0] ['\\', 'x', '0', '0']))]] [],
    .text ['\n', ' ', ' ', ' ', ' ', '\''],
    .out (.attr (.name "field") "key"),
    .text ['\'', ':', ' '],
    .out (.attr (.name "field") "type_hint"),
    .text [',']],
  .text ['}', ')', '\n']]

/-- `Union.jinja2` -/
def t_Union : List Tpl := [
  .ite (.name "description") [
    .forIn ["line"] (.mcall (.name "description") "splitlines" "") [
      .text ['\n', '#', ' '],
      .out (.filter (.name "line") (.replace [Char.ofNat 0] ['\\', 'x', '0', '0']))]] [],
  .ite (.cmp .gt (.filter (.name "fields") .length) (.int 1)) [
    .text ['\n'],
    .out (.name "class_name"),
    .text [':', ' ', 'T', 'y', 'p', 'e', 'A', 'l', 'i', 'a', 's', ' ', '=', ' ', 'U', 'n', 'i', 'o', 'n', '['],
    .forIn ["field"] (.name "fields") [
      .text ['\n', ' ', ' ', ' ', ' ', '\''],
      .out (.attr (.name "field") "name"),
      .text ['\'', ',']],
    .text ['\n', ']']] [
    .text ['\n'],
    .out (.name "class_name"),
    .text [':', ' ', 'T', 'y', 'p', 'e', 'A', 'l', 'i', 'a', 's', ' ', '=', ' ', 'U', 'n', 'i', 'o', 'n', '[', '\''],
    .out (.attr (.item (.name "fields") (.int 0)) "name"),
    .text ['\'', ']']]]

/-- `dataclass.jinja2` -/
def t_dataclass : List Tpl := [
  .forIn ["decorator"] (.name "decorators") [
    .out (.name "decorator"),
    .text ['\n']],
  .text ['@', 'd', 'a', 't', 'a', 'c', 'l', 'a', 's', 's'],
  .ite (.name "keyword_only") [
    .text ['(', 'k', 'w', '_', 'o', 'n', 'l', 'y', '=', 'T', 'r', 'u', 'e', ')']] [],
  .ite (.name "base_class") [
    .text ['\n', 'c', 'l', 'a', 's', 's', ' '],
    .out (.name "class_name"),
    .text ['('],
    .out (.name "base_class"),
    .text [')', ':']] [
    .text ['\n', 'c', 'l', 'a', 's', 's', ' '],
    .out (.name "class_name"),
    .text [':']],
  .ite (.name "description") [
    .text ['\n', ' ', ' ', ' ', ' ', '"', '"', '"', '\n', ' ', ' ', ' ', ' '],
    .out (.filter (.filter (.name "description") .escapeDocstring) (.indent 4)),
    .text ['\n', ' ', ' ', ' ', ' ', '"', '"', '"']] [],
  .ite (.and (.not (.name "fields")) (.not (.name "description"))) [
    .text ['\n', ' ', ' ', ' ', ' ', 'p', 'a', 's', 's']] [],
  .forIn ["field"] (.name "fields") [
    .ite (.attr (.name "field") "field") [
      .text ['\n', ' ', ' ', ' ', ' '],
      .out (.attr (.name "field") "name"),
      .text [':', ' '],
      .out (.attr (.name "field") "type_hint"),
      .text [' ', '=', ' '],
      .out (.attr (.name "field") "field")] [
      .text ['\n', ' ', ' ', ' ', ' '],
      .out (.attr (.name "field") "name"),
      .text [':', ' '],
      .out (.attr (.name "field") "type_hint"),
      .ite (.not (.or (.attr (.name "field") "required") (.and (.cmp .eq (.attr (.name "field") "represented_default") (.str ['N', 'o', 'n', 'e'])) (.attr (.name "field") "strip_default_none")))) [
        .text [' ', '=', ' '],
        .out (.attr (.name "field") "represented_default")] []],
    .ite (.attr (.name "field") "docstring") [
      .text ['\n', ' ', ' ', ' ', ' ', '"', '"', '"', '\n', ' ', ' ', ' ', ' '],
      .out (.filter (.filter (.attr (.name "field") "docstring") .escapeDocstring) (.indent 4)),
      .text ['\n', ' ', ' ', ' ', ' ', '"', '"', '"']] []]]

/-- `msgspec.jinja2` -/
def t_msgspec : List Tpl := [
  .forIn ["decorator"] (.name "decorators") [
    .out (.name "decorator"),
    .text ['\n']],
  .ite (.name "base_class") [
    .text ['\n', 'c', 'l', 'a', 's', 's', ' '],
    .out (.name "class_name"),
    .text ['('],
    .out (.name "base_class"),
    .forIn ["key", "value"] (.mcall (.filter (.name "base_class_kwargs") .defaultEmptyDict) "items" "") [
      .text [',', ' '],
      .out (.name "key"),
      .text ['='],
      .out (.name "value")],
    .text [')', ':']] [
    .text ['\n', 'c', 'l', 'a', 's', 's', ' '],
    .out (.name "class_name"),
    .text [':']],
  .ite (.name "description") [
    .text ['\n', ' ', ' ', ' ', ' ', '"', '"', '"', '\n', ' ', ' ', ' ', ' '],
    .out (.filter (.filter (.name "description") .escapeDocstring) (.indent 4)),
    .text ['\n', ' ', ' ', ' ', ' ', '"', '"', '"']] [],
  .ite (.and (.not (.name "fields")) (.not (.name "description"))) [
    .text ['\n', ' ', ' ', ' ', ' ', 'p', 'a', 's', 's']] [],
  .forIn ["field"] (.name "fields") [
    .ite (.and (.not (.attr (.name "field") "annotated")) (.attr (.name "field") "field")) [
      .text ['\n', ' ', ' ', ' ', ' '],
      .out (.attr (.name "field") "name"),
      .text [':', ' '],
      .out (.attr (.name "field") "type_hint"),
      .text [' ', '=', ' '],
      .out (.attr (.name "field") "field")] [
      .ite (.and (.attr (.name "field") "annotated") (.not (.attr (.name "field") "field"))) [
        .text ['\n', ' ', ' ', ' ', ' '],
        .out (.attr (.name "field") "name"),
        .text [':', ' '],
        .out (.attr (.name "field") "annotated")] [.ite (.and (.attr (.name "field") "annotated") (.attr (.name "field") "field")) [
        .text ['\n', ' ', ' ', ' ', ' '],
        .out (.attr (.name "field") "name"),
        .text [':', ' '],
        .out (.attr (.name "field") "annotated"),
        .text [' ', '=', ' '],
        .out (.attr (.name "field") "field")] [
        .text ['\n', ' ', ' ', ' ', ' '],
        .out (.attr (.name "field") "name"),
        .text [':', ' '],
        .out (.attr (.name "field") "type_hint")]],
      .ite (.and (.not (.attr (.name "field") "field")) (.or (.or (.not (.attr (.name "field") "required")) (.attr (.attr (.name "field") "data_type") "is_optional")) (.attr (.name "field") "nullable"))) [
        .text [' ', '=', ' '],
        .out (.attr (.name "field") "represented_default")] []],
    .ite (.attr (.name "field") "docstring") [
      .text ['\n', ' ', ' ', ' ', ' ', '"', '"', '"', '\n', ' ', ' ', ' ', ' '],
      .out (.filter (.filter (.attr (.name "field") "docstring") .escapeDocstring) (.indent 4)),
      .text ['\n', ' ', ' ', ' ', ' ', '"', '"', '"']] []]]

/-- `pydantic/BaseModel.jinja2` -/
def t_pydantic_BaseModel : List Tpl := [
  .forIn ["decorator"] (.name "decorators") [
    .out (.name "decorator"),
    .text ['\n']],
  .text ['c', 'l', 'a', 's', 's', ' '],
  .out (.name "class_name"),
  .text ['('],
  .out (.name "base_class"),
  .text [')', ':'],
  .ite (.isDefined (.name "comment")) [
    .text [' ', ' ', '#', ' '],
    .out (.name "comment")] [],
  .ite (.name "description") [
    .text ['\n', ' ', ' ', ' ', ' ', '"', '"', '"', '\n', ' ', ' ', ' ', ' '],
    .out (.filter (.filter (.name "description") .escapeDocstring) (.indent 4)),
    .text ['\n', ' ', ' ', ' ', ' ', '"', '"', '"']] [],
  .ite (.and (.not (.name "fields")) (.not (.name "description"))) [
    .text ['\n', ' ', ' ', ' ', ' ', 'p', 'a', 's', 's']] [],
  .ite (.name "config") [
    .filterBlock (.indent 4) [
      .text ['\n'],
      .incl "Config.jinja2" "pydantic/Config.jinja2" [
        .text ['c', 'l', 'a', 's', 's', ' ', 'C', 'o', 'n', 'f', 'i', 'g', ':'],
        .forIn ["field_name", "value"] (.mcall (.mcall (.name "config") "dict" "exclude_unset=True") "items" "") [
          .text ['\n', ' ', ' ', ' ', ' '],
          .out (.name "field_name"),
          .text [' ', '=', ' '],
          .out (.name "value")]]]] [],
  .forIn ["field"] (.name "fields") [
    .ite (.and (.not (.attr (.name "field") "annotated")) (.attr (.name "field") "field")) [
      .text ['\n', ' ', ' ', ' ', ' '],
      .out (.attr (.name "field") "name"),
      .text [':', ' '],
      .out (.attr (.name "field") "type_hint"),
      .text [' ', '=', ' '],
      .out (.attr (.name "field") "field")] [
      .ite (.attr (.name "field") "annotated") [
        .text ['\n', ' ', ' ', ' ', ' '],
        .out (.attr (.name "field") "name"),
        .text [':', ' '],
        .out (.attr (.name "field") "annotated")] [
        .text ['\n', ' ', ' ', ' ', ' '],
        .out (.attr (.name "field") "name"),
        .text [':', ' '],
        .out (.attr (.name "field") "type_hint")],
      .ite (.not (.or (.attr (.name "field") "required") (.and (.cmp .eq (.attr (.name "field") "represented_default") (.str ['N', 'o', 'n', 'e'])) (.attr (.name "field") "strip_default_none")))) [
        .text [' ', '=', ' '],
        .out (.attr (.name "field") "represented_default")] []],
    .ite (.attr (.name "field") "docstring") [
      .text ['\n', ' ', ' ', ' ', ' ', '"', '"', '"', '\n', ' ', ' ', ' ', ' '],
      .out (.filter (.filter (.attr (.name "field") "docstring") .escapeDocstring) (.indent 4)),
      .text ['\n', ' ', ' ', ' ', ' ', '"', '"', '"']] [],
    .forIn ["method"] (.name "methods") [
      .out (.name "method")]]]

/-- `pydantic/BaseModel_root.jinja2` -/
def t_pydantic_BaseModel_root : List Tpl := [
  .forIn ["decorator"] (.name "decorators") [
    .out (.name "decorator"),
    .text ['\n']],
  .text ['c', 'l', 'a', 's', 's', ' '],
  .out (.name "class_name"),
  .text ['('],
  .out (.name "base_class"),
  .text [')', ':'],
  .ite (.isDefined (.name "comment")) [
    .text [' ', ' ', '#', ' '],
    .out (.name "comment")] [],
  .ite (.name "description") [
    .text ['\n', ' ', ' ', ' ', ' ', '"', '"', '"', '\n', ' ', ' ', ' ', ' '],
    .out (.filter (.filter (.name "description") .escapeDocstring) (.indent 4)),
    .text ['\n', ' ', ' ', ' ', ' ', '"', '"', '"']] [],
  .ite (.name "config") [
    .filterBlock (.indent 4) [
      .text ['\n'],
      .incl "Config.jinja2" "pydantic/Config.jinja2" [
        .text ['c', 'l', 'a', 's', 's', ' ', 'C', 'o', 'n', 'f', 'i', 'g', ':'],
        .forIn ["field_name", "value"] (.mcall (.mcall (.name "config") "dict" "exclude_unset=True") "items" "") [
          .text ['\n', ' ', ' ', ' ', ' '],
          .out (.name "field_name"),
          .text [' ', '=', ' '],
          .out (.name "value")]]]] [],
  .ite (.and (.not (.name "fields")) (.not (.name "description"))) [
    .text ['\n', ' ', ' ', ' ', ' ', 'p', 'a', 's', 's']] [
    .setVar "field" (.item (.name "fields") (.int 0)),
    .ite (.and (.not (.attr (.name "field") "annotated")) (.attr (.name "field") "field")) [
      .text ['\n', ' ', ' ', ' ', ' ', '_', '_', 'r', 'o', 'o', 't', '_', '_', ':', ' '],
      .out (.attr (.name "field") "type_hint"),
      .text [' ', '=', ' '],
      .out (.attr (.name "field") "field")] [
      .ite (.attr (.name "field") "annotated") [
        .text ['\n', ' ', ' ', ' ', ' ', '_', '_', 'r', 'o', 'o', 't', '_', '_', ':', ' '],
        .out (.attr (.name "field") "annotated")] [
        .text ['\n', ' ', ' ', ' ', ' ', '_', '_', 'r', 'o', 'o', 't', '_', '_', ':', ' '],
        .out (.attr (.name "field") "type_hint")],
      .ite (.not (.or (.attr (.name "field") "required") (.and (.cmp .eq (.attr (.name "field") "represented_default") (.str ['N', 'o', 'n', 'e'])) (.attr (.name "field") "strip_default_none")))) [
        .text [' ', '=', ' '],
        .out (.attr (.name "field") "represented_default")] []],
    .ite (.attr (.name "field") "docstring") [
      .text ['\n', ' ', ' ', ' ', ' ', '"', '"', '"', '\n', ' ', ' ', ' ', ' '],
      .out (.filter (.filter (.attr (.name "field") "docstring") .escapeDocstring) (.indent 4)),
      .text ['\n', ' ', ' ', ' ', ' ', '"', '"', '"']] []]]

/-- `pydantic/Config.jinja2` -/
def t_pydantic_Config : List Tpl := [
  .text ['c', 'l', 'a', 's', 's', ' ', 'C', 'o', 'n', 'f', 'i', 'g', ':'],
  .forIn ["field_name", "value"] (.mcall (.mcall (.name "config") "dict" "exclude_unset=True") "items" "") [
    .text ['\n', ' ', ' ', ' ', ' '],
    .out (.name "field_name"),
    .text [' ', '=', ' '],
    .out (.name "value")]]

/-- `pydantic/dataclass.jinja2` -/
def t_pydantic_dataclass : List Tpl := [
  .forIn ["decorator"] (.name "decorators") [
    .out (.name "decorator"),
    .text ['\n']],
  .text ['@', 'd', 'a', 't', 'a', 'c', 'l', 'a', 's', 's'],
  .ite (.name "base_class") [
    .text ['\n', 'c', 'l', 'a', 's', 's', ' '],
    .out (.name "class_name"),
    .text ['('],
    .out (.name "base_class"),
    .text [')', ':']] [
    .text ['\n', 'c', 'l', 'a', 's', 's', ' '],
    .out (.name "class_name"),
    .text [':']],
  .ite (.name "description") [
    .text ['\n', ' ', ' ', ' ', ' ', '"', '"', '"', '\n', ' ', ' ', ' ', ' '],
    .out (.filter (.filter (.name "description") .escapeDocstring) (.indent 4)),
    .text ['\n', ' ', ' ', ' ', ' ', '"', '"', '"']] [],
  .ite (.not (.name "fields")) [
    .text ['\n', ' ', ' ', ' ', ' ', 'p', 'a', 's', 's']] [],
  .forIn ["field"] (.name "fields") [
    .ite (.attr (.name "field") "default") [
      .text ['\n', ' ', ' ', ' ', ' '],
      .out (.attr (.name "field") "name"),
      .text [':', ' '],
      .out (.attr (.name "field") "type_hint"),
      .text [' ', '=', ' '],
      .out (.attr (.name "field") "default")] [
      .text ['\n', ' ', ' ', ' ', ' '],
      .out (.attr (.name "field") "name"),
      .text [':', ' '],
      .out (.attr (.name "field") "type_hint")],
    .ite (.attr (.name "field") "docstring") [
      .text ['\n', ' ', ' ', ' ', ' ', '"', '"', '"', '\n', ' ', ' ', ' ', ' '],
      .out (.filter (.filter (.attr (.name "field") "docstring") .escapeDocstring) (.indent 4)),
      .text ['\n', ' ', ' ', ' ', ' ', '"', '"', '"']] []]]

/-- `pydantic_v2/BaseModel.jinja2` -/
def t_pydantic_v2_BaseModel : List Tpl := [
  .ite (.and (.and (.and (.cmp .ne (.name "base_class") (.str ['B', 'a', 's', 'e', 'M', 'o', 'd', 'e', 'l'])) (.cmp .notIn (.str [',']) (.name "base_class"))) (.not (.name "fields"))) (.not (.name "config"))) [
    .text ['\n'],
    .out (.name "class_name"),
    .text [' ', '=', ' '],
    .out (.name "base_class"),
    .text ['\n', '\n']] [
    .forIn ["decorator"] (.name "decorators") [
      .out (.name "decorator"),
      .text ['\n']],
    .text ['c', 'l', 'a', 's', 's', ' '],
    .out (.name "class_name"),
    .text ['('],
    .out (.name "base_class"),
    .text [')', ':'],
    .ite (.isDefined (.name "comment")) [
      .text [' ', ' ', '#', ' '],
      .out (.name "comment")] [],
    .ite (.name "description") [
      .text ['\n', ' ', ' ', ' ', ' ', '"', '"', '"', '\n', ' ', ' ', ' ', ' '],
      .out (.filter (.filter (.name "description") .escapeDocstring) (.indent 4)),
      .text ['\n', ' ', ' ', ' ', ' ', '"', '"', '"']] [],
    .ite (.and (.not (.name "fields")) (.not (.name "description"))) [
      .text ['\n', ' ', ' ', ' ', ' ', 'p', 'a', 's', 's']] [],
    .ite (.name "config") [
      .filterBlock (.indent 4) [
        .text ['\n'],
        .incl "ConfigDict.jinja2" "pydantic_v2/ConfigDict.jinja2" [
          .text ['m', 'o', 'd', 'e', 'l', '_', 'c', 'o', 'n', 'f', 'i', 'g', ' ', '=', ' ', 'C', 'o', 'n', 'f', 'i', 'g', 'D', 'i', 'c', 't', '('],
          .forIn ["field_name", "value"] (.mcall (.mcall (.name "config") "dict" "exclude_unset=True") "items" "") [
            .text ['\n', ' ', ' ', ' ', ' '],
            .out (.name "field_name"),
            .text ['='],
            .out (.name "value"),
            .text [',']],
          .text ['\n', ')']]]] [],
    .forIn ["field"] (.name "fields") [
      .ite (.and (.not (.attr (.name "field") "annotated")) (.attr (.name "field") "field")) [
        .text ['\n', ' ', ' ', ' ', ' '],
        .out (.attr (.name "field") "name"),
        .text [':', ' '],
        .out (.attr (.name "field") "type_hint"),
        .text [' ', '=', ' '],
        .out (.attr (.name "field") "field")] [
        .ite (.attr (.name "field") "annotated") [
          .text ['\n', ' ', ' ', ' ', ' '],
          .out (.attr (.name "field") "name"),
          .text [':', ' '],
          .out (.attr (.name "field") "annotated")] [
          .text ['\n', ' ', ' ', ' ', ' '],
          .out (.attr (.name "field") "name"),
          .text [':', ' '],
          .out (.attr (.name "field") "type_hint")],
        .ite (.or (.not (.or (.attr (.name "field") "required") (.and (.cmp .eq (.attr (.name "field") "represented_default") (.str ['N', 'o', 'n', 'e'])) (.attr (.name "field") "strip_default_none")))) (.attr (.attr (.name "field") "data_type") "is_optional")) [
          .text [' ', '=', ' '],
          .out (.attr (.name "field") "represented_default")] []],
      .ite (.attr (.name "field") "docstring") [
        .text ['\n', ' ', ' ', ' ', ' ', '"', '"', '"', '\n', ' ', ' ', ' ', ' '],
        .out (.filter (.filter (.attr (.name "field") "docstring") .escapeDocstring) (.indent 4)),
        .text ['\n', ' ', ' ', ' ', ' ', '"', '"', '"']] [],
      .forIn ["method"] (.name "methods") [
        .out (.name "method")]]]]

/-- `pydantic_v2/ConfigDict.jinja2` -/
def t_pydantic_v2_ConfigDict : List Tpl := [
  .text ['m', 'o', 'd', 'e', 'l', '_', 'c', 'o', 'n', 'f', 'i', 'g', ' ', '=', ' ', 'C', 'o', 'n', 'f', 'i', 'g', 'D', 'i', 'c', 't', '('],
  .forIn ["field_name", "value"] (.mcall (.mcall (.name "config") "dict" "exclude_unset=True") "items" "") [
    .text ['\n', ' ', ' ', ' ', ' '],
    .out (.name "field_name"),
    .text ['='],
    .out (.name "value"),
    .text [',']],
  .text ['\n', ')']]

/-- `pydantic_v2/RootModel.jinja2` -/
def t_pydantic_v2_RootModel : List Tpl := [
  .macroDef "get_type_hint" ["_fields"] [
    .ite (.name "_fields") [
      .out (.attr (.item (.name "_fields") (.int 0)) "type_hint")] []],
  .forIn ["decorator"] (.name "decorators") [
    .out (.name "decorator"),
    .text ['\n']],
  .text ['c', 'l', 'a', 's', 's', ' '],
  .out (.name "class_name"),
  .text ['('],
  .out (.name "base_class"),
  .ite (.name "fields") [
    .text ['['],
    .callMacro "get_type_hint" ["_fields"] [(.name "fields")] [
    .ite (.name "_fields") [
      .out (.attr (.item (.name "_fields") (.int 0)) "type_hint")] []],
    .text [']']] [],
  .text [')', ':'],
  .ite (.isDefined (.name "comment")) [
    .text [' ', ' ', '#', ' '],
    .out (.name "comment")] [],
  .ite (.name "description") [
    .text ['\n', ' ', ' ', ' ', ' ', '"', '"', '"', '\n', ' ', ' ', ' ', ' '],
    .out (.filter (.filter (.name "description") .escapeDocstring) (.indent 4)),
    .text ['\n', ' ', ' ', ' ', ' ', '"', '"', '"']] [],
  .ite (.name "config") [
    .filterBlock (.indent 4) [
      .text ['\n'],
      .incl "ConfigDict.jinja2" "pydantic_v2/ConfigDict.jinja2" [
        .text ['m', 'o', 'd', 'e', 'l', '_', 'c', 'o', 'n', 'f', 'i', 'g', ' ', '=', ' ', 'C', 'o', 'n', 'f', 'i', 'g', 'D', 'i', 'c', 't', '('],
        .forIn ["field_name", "value"] (.mcall (.mcall (.name "config") "dict" "exclude_unset=True") "items" "") [
          .text ['\n', ' ', ' ', ' ', ' '],
          .out (.name "field_name"),
          .text ['='],
          .out (.name "value"),
          .text [',']],
        .text ['\n', ')']]]] [],
  .ite (.and (.not (.name "fields")) (.not (.name "description"))) [
    .text ['\n', ' ', ' ', ' ', ' ', 'p', 'a', 's', 's']] [
    .setVar "field" (.item (.name "fields") (.int 0)),
    .ite (.and (.not (.attr (.name "field") "annotated")) (.attr (.name "field") "field")) [
      .text ['\n', ' ', ' ', ' ', ' ', 'r', 'o', 'o', 't', ':', ' '],
      .out (.attr (.name "field") "type_hint"),
      .text [' ', '=', ' '],
      .out (.attr (.name "field") "field")] [
      .ite (.attr (.name "field") "annotated") [
        .text ['\n', ' ', ' ', ' ', ' ', 'r', 'o', 'o', 't', ':', ' '],
        .out (.attr (.name "field") "annotated")] [
        .text ['\n', ' ', ' ', ' ', ' ', 'r', 'o', 'o', 't', ':', ' '],
        .out (.attr (.name "field") "type_hint")],
      .ite (.not (.or (.attr (.name "field") "required") (.and (.cmp .eq (.attr (.name "field") "represented_default") (.str ['N', 'o', 'n', 'e'])) (.attr (.name "field") "strip_default_none")))) [
        .text [' ', '=', ' '],
        .out (.attr (.name "field") "represented_default")] []],
    .ite (.attr (.name "field") "docstring") [
      .text ['\n', ' ', ' ', ' ', ' ', '"', '"', '"', '\n', ' ', ' ', ' ', ' '],
      .out (.filter (.filter (.attr (.name "field") "docstring") .escapeDocstring) (.indent 4)),
      .text ['\n', ' ', ' ', ' ', ' ', '"', '"', '"']] []]]

/-- `root.jinja2` -/
def t_root : List Tpl := [
  .setVar "field" (.item (.name "fields") (.int 0)),
  .ite (.attr (.name "field") "annotated") [
    .text ['\n'],
    .out (.name "class_name"),
    .text [' ', '=', ' '],
    .out (.attr (.name "field") "annotated")] [
    .text ['\n'],
    .out (.name "class_name"),
    .text [' ', '=', ' '],
    .out (.attr (.name "field") "type_hint")]]

def templates : List (String × List Tpl) := [
  ("Enum.jinja2", t_Enum),
  ("Scalar.jinja2", t_Scalar),
  ("TypedDict.jinja2", t_TypedDict),
  ("TypedDictClass.jinja2", t_TypedDictClass),
  ("TypedDictFunction.jinja2", t_TypedDictFunction),
  ("Union.jinja2", t_Union),
  ("dataclass.jinja2", t_dataclass),
  ("msgspec.jinja2", t_msgspec),
  ("pydantic/BaseModel.jinja2", t_pydantic_BaseModel),
  ("pydantic/BaseModel_root.jinja2", t_pydantic_BaseModel_root),
  ("pydantic/Config.jinja2", t_pydantic_Config),
  ("pydantic/dataclass.jinja2", t_pydantic_dataclass),
  ("pydantic_v2/BaseModel.jinja2", t_pydantic_v2_BaseModel),
  ("pydantic_v2/ConfigDict.jinja2", t_pydantic_v2_ConfigDict),
  ("pydantic_v2/RootModel.jinja2", t_pydantic_v2_RootModel),
  ("root.jinja2", t_root)
]

/-- nodes outside the modelled fragment, as reported by the translator (re-counted in Lean by
`Tpl.unsupportedCountL`) -/
def unsupportedNotes : List String := []

end Dcg.Gen.TemplateAst
