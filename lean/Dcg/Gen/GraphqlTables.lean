-- GENERATED from /repo by /verif/vlib/translate on every run. Do not edit.
import Dcg.Model.GraphqlOrder
namespace Dcg.Gen.GraphqlTables
open Dcg.Model.GraphqlOrder

/-- model/scalar.py DEFAULT_GRAPHQL_SCALAR_TYPES (GraphQL scalar name, Python type) -/
def defaultScalarTypes : List (String × String) :=
  [("Boolean", "bool"), ("String", "str"), ("ID", "str"), ("Int", "int"), ("Float", "float")]

/-- model/scalar.py DEFAULT_GRAPHQL_SCALAR_TYPE: every scalar not in the table -/
def defaultScalarType : String := "str"

/-- graphql-core: specified_scalar_types (environment) -/
def builtinScalars : List String := ["Boolean", "Float", "ID", "Int", "String"]

/-- graphql-core: the TypeKind members a named type can have (environment) -/
def namedTypeKinds : List String := ["ENUM", "INPUT_OBJECT", "INTERFACE", "OBJECT", "SCALAR", "UNION"]

/-- GraphQLParser.parse_order (render order of the kinds) -/
def parseOrder : List String := ["SCALAR", "ENUM", "INTERFACE", "OBJECT", "INPUT_OBJECT", "UNION"]

/-- keys of self.support_graphql_types in parse_raw -/
def supportKinds : List String := ["SCALAR", "ENUM", "UNION", "INTERFACE", "OBJECT", "INPUT_OBJECT"]

/-- mapper_from_graphql_type_to_parser_method in parse_raw (kind, method) -/
def kindMethods : List (String × String) := [("SCALAR", "self.parse_scalar"), ("ENUM", "self.parse_enum"), ("INTERFACE", "self.parse_interface"), ("OBJECT", "self.parse_object"), ("INPUT_OBJECT", "self.parse_input_object"), ("UNION", "self.parse_union")]

/-- keyword arguments of the field built by _typename_field(NAME) -/
def typenameField : List (String × String) :=
  [("alias", "__typename"), ("default", "NAME"), ("has_default", "True"), ("literals", "[NAME]"), ("name", "typename__"), ("required", "False"), ("use_annotated", "self.use_annotated"), ("use_one_literal_as_default", "True")]

/-- type names _resolve_types skips -/
def skippedTypeNames : List String := ["Mutation", "Query"]

/-- model/template/Union.jinja2: the `if` tree and every `{{ … }}` site with its Python lexical state -/
def unionTemplate : UTpl :=
  (.ite (.var "description") (.site (.other "in a loop over Call(description.splitlines)") .comment .done) .done (.ite (.lenGt 1) (.site .className .code (.site .eachMember .str .done)) (.site .className .code (.site .firstMember .str .done)) .done))

/-- identifiers in the literal text of Union.jinja2 that are in code -/
def unionLiteralNames : List String := ["TypeAlias", "Union"]

/-- the names DataTypeUnion.DEFAULT_IMPORTS binds -/
def unionDefaultImports : List String := ["TypeAlias", "Union"]

/-- template variables parse_union sets in extra_template_data[<union name>] (variable, parser option) -/
def unionTemplateVars : List (String × String) := []

end Dcg.Gen.GraphqlTables
