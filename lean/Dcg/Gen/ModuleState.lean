-- GENERATED from /repo by /verif/vlib/translate on every run. Do not edit.
import Dcg.Model.Key
namespace Dcg.Gen.ModuleState

/-- every dict / list / set bound to a module-level name (one object per process): (file, name, kind) -/
def moduleMutables : List (Nat × Nat × Nat) :=
  [(k! "__init__.py", k! "RAW_DATA_TYPES", k! "list"),
   (k! "format.py", k! "BLACK_PYTHON_VERSION", k! "dict"),
   (k! "format.py", k! "DEFAULT_FORMATTERS", k! "list"),
   (k! "model/enum.py", k! "SUBCLASS_BASE_CLASSES", k! "dict"),
   (k! "model/pydantic/types.py", k! "byes_kwargs", k! "set"),
   (k! "model/pydantic/types.py", k! "number_kwargs", k! "set"),
   (k! "model/pydantic/types.py", k! "string_kwargs", k! "set"),
   (k! "model/scalar.py", k! "DEFAULT_GRAPHQL_SCALAR_TYPES", k! "dict"),
   (k! "parser/jsonschema.py", k! "DEFAULT_FIELD_KEYS", k! "set"),
   (k! "parser/jsonschema.py", k! "EXCLUDE_FIELD_KEYS", k! "set"),
   (k! "parser/jsonschema.py", k! "EXCLUDE_FIELD_KEYS_IN_JSON_SCHEMA", k! "set"),
   (k! "parser/jsonschema.py", k! "json_schema_data_formats", k! "dict"),
   (k! "parser/openapi.py", k! "OPERATION_NAMES", k! "list"),
   (k! "reference.py", k! "DEFAULT_FIELD_NAME_RESOLVERS", k! "dict")]

structure Escape where
  file : Nat
  func : Nat
  kind : Nat
  target : Nat
  const : Nat
  mutated : Bool
  deriving Repr, DecidableEq

/-- every place where a module-level mutable object itself (not a copy) gets another name or is handed on; `mutated`: the
new name (attribute anywhere in the package / local in the function) is mutated in place somewhere -/
def moduleMutableEscapes : List Escape :=
  [{ file := k! "__init__.py", func := k! "generate", kind := k! "default", target := k! "", const := k! "DEFAULT_FORMATTERS", mutated := false },
   { file := k! "__main__.py", func := k! "Config", kind := k! "classattr", target := k! "formatters", const := k! "DEFAULT_FORMATTERS", mutated := false },
   { file := k! "format.py", func := k! "CodeFormatter.__init__", kind := k! "default", target := k! "", const := k! "DEFAULT_FORMATTERS", mutated := false },
   { file := k! "model/pydantic/types.py", func := k! "DataTypeManager.get_data_bytes_type", kind := k! "arg", target := k! "self.transform_kwargs", const := k! "byes_kwargs", mutated := false },
   { file := k! "model/pydantic/types.py", func := k! "DataTypeManager.get_data_decimal_type", kind := k! "arg", target := k! "self.transform_kwargs", const := k! "number_kwargs", mutated := false },
   { file := k! "model/pydantic/types.py", func := k! "DataTypeManager.get_data_float_type", kind := k! "arg", target := k! "self.transform_kwargs", const := k! "number_kwargs", mutated := false },
   { file := k! "model/pydantic/types.py", func := k! "DataTypeManager.get_data_int_type", kind := k! "arg", target := k! "self.transform_kwargs", const := k! "number_kwargs", mutated := false },
   { file := k! "model/pydantic/types.py", func := k! "DataTypeManager.get_data_str_type", kind := k! "arg", target := k! "self.transform_kwargs", const := k! "string_kwargs", mutated := false },
   { file := k! "parser/base.py", func := k! "Parser.__init__", kind := k! "default", target := k! "", const := k! "DEFAULT_FORMATTERS", mutated := false },
   { file := k! "parser/graphql.py", func := k! "GraphQLParser.__init__", kind := k! "default", target := k! "", const := k! "DEFAULT_FORMATTERS", mutated := false },
   { file := k! "parser/jsonschema.py", func := k! "JsonSchemaParser.__init__", kind := k! "default", target := k! "", const := k! "DEFAULT_FORMATTERS", mutated := false },
   { file := k! "parser/openapi.py", func := k! "OpenAPIParser.__init__", kind := k! "default", target := k! "", const := k! "DEFAULT_FORMATTERS", mutated := false }]

/-- every in-place mutation of a module-level mutable object under its own name: (file, function, constant, operation) -/
def moduleMutableWrites : List (Nat × Nat × Nat × Nat) :=
  []

structure CacheRead where
  file : Nat
  func : Nat
  paramAnnotations : List Nat
  pathParam : Bool
  outside : List Nat
  deriving Repr, DecidableEq

/-- every process-wide memoised function (lru_cache / cache): annotations of its parameters (pathParam: one of them
names a path / file type), and the calls / names in its body
that read the file system, the environment, the clock -/
def cacheReads : List CacheRead :=
  [{ file := k! "imports.py", func := k! "Import.from_full_path", paramAnnotations := [k! "str"], pathParam := false, outside := [] },
   { file := k! "model/base.py", func := k! "get_template", paramAnnotations := [k! "Path"], pathParam := true, outside := [] },
   { file := k! "parser/jsonschema.py", func := k! "get_ref_type", paramAnnotations := [k! "str"], pathParam := false, outside := [] },
   { file := k! "reference.py", func := k! "camel_to_snake", paramAnnotations := [k! "str"], pathParam := false, outside := [] },
   { file := k! "reference.py", func := k! "get_singular_name", paramAnnotations := [k! "str", k! "str"], pathParam := false, outside := [] },
   { file := k! "reference.py", func := k! "snake_to_upper_camel", paramAnnotations := [k! "str", k! "str"], pathParam := false, outside := [] },
   { file := k! "types.py", func := k! "_remove_none_from_type", paramAnnotations := [k! "str", k! "Pattern[str]", k! "str"], pathParam := false, outside := [] },
   { file := k! "types.py", func := k! "get_optional_type", paramAnnotations := [k! "str", k! "bool"], pathParam := false, outside := [] }]

end Dcg.Gen.ModuleState
