-- GENERATED from /repo by /verif/vlib/translate on every run. Do not edit.
namespace Dcg.Gen.ResolverTables

/-- `keyword.kwlist` of the interpreter the generator runs on -/
def keywords : List (List Char) := [
  [Char.ofNat 70, Char.ofNat 97, Char.ofNat 108, Char.ofNat 115, Char.ofNat 101] /- False -/,
  [Char.ofNat 78, Char.ofNat 111, Char.ofNat 110, Char.ofNat 101] /- None -/,
  [Char.ofNat 84, Char.ofNat 114, Char.ofNat 117, Char.ofNat 101] /- True -/,
  [Char.ofNat 97, Char.ofNat 110, Char.ofNat 100] /- and -/,
  [Char.ofNat 97, Char.ofNat 115] /- as -/,
  [Char.ofNat 97, Char.ofNat 115, Char.ofNat 115, Char.ofNat 101, Char.ofNat 114, Char.ofNat 116] /- assert -/,
  [Char.ofNat 97, Char.ofNat 115, Char.ofNat 121, Char.ofNat 110, Char.ofNat 99] /- async -/,
  [Char.ofNat 97, Char.ofNat 119, Char.ofNat 97, Char.ofNat 105, Char.ofNat 116] /- await -/,
  [Char.ofNat 98, Char.ofNat 114, Char.ofNat 101, Char.ofNat 97, Char.ofNat 107] /- break -/,
  [Char.ofNat 99, Char.ofNat 108, Char.ofNat 97, Char.ofNat 115, Char.ofNat 115] /- class -/,
  [Char.ofNat 99, Char.ofNat 111, Char.ofNat 110, Char.ofNat 116, Char.ofNat 105, Char.ofNat 110, Char.ofNat 117, Char.ofNat 101] /- continue -/,
  [Char.ofNat 100, Char.ofNat 101, Char.ofNat 102] /- def -/,
  [Char.ofNat 100, Char.ofNat 101, Char.ofNat 108] /- del -/,
  [Char.ofNat 101, Char.ofNat 108, Char.ofNat 105, Char.ofNat 102] /- elif -/,
  [Char.ofNat 101, Char.ofNat 108, Char.ofNat 115, Char.ofNat 101] /- else -/,
  [Char.ofNat 101, Char.ofNat 120, Char.ofNat 99, Char.ofNat 101, Char.ofNat 112, Char.ofNat 116] /- except -/,
  [Char.ofNat 102, Char.ofNat 105, Char.ofNat 110, Char.ofNat 97, Char.ofNat 108, Char.ofNat 108, Char.ofNat 121] /- finally -/,
  [Char.ofNat 102, Char.ofNat 111, Char.ofNat 114] /- for -/,
  [Char.ofNat 102, Char.ofNat 114, Char.ofNat 111, Char.ofNat 109] /- from -/,
  [Char.ofNat 103, Char.ofNat 108, Char.ofNat 111, Char.ofNat 98, Char.ofNat 97, Char.ofNat 108] /- global -/,
  [Char.ofNat 105, Char.ofNat 102] /- if -/,
  [Char.ofNat 105, Char.ofNat 109, Char.ofNat 112, Char.ofNat 111, Char.ofNat 114, Char.ofNat 116] /- import -/,
  [Char.ofNat 105, Char.ofNat 110] /- in -/,
  [Char.ofNat 105, Char.ofNat 115] /- is -/,
  [Char.ofNat 108, Char.ofNat 97, Char.ofNat 109, Char.ofNat 98, Char.ofNat 100, Char.ofNat 97] /- lambda -/,
  [Char.ofNat 110, Char.ofNat 111, Char.ofNat 110, Char.ofNat 108, Char.ofNat 111, Char.ofNat 99, Char.ofNat 97, Char.ofNat 108] /- nonlocal -/,
  [Char.ofNat 110, Char.ofNat 111, Char.ofNat 116] /- not -/,
  [Char.ofNat 111, Char.ofNat 114] /- or -/,
  [Char.ofNat 112, Char.ofNat 97, Char.ofNat 115, Char.ofNat 115] /- pass -/,
  [Char.ofNat 114, Char.ofNat 97, Char.ofNat 105, Char.ofNat 115, Char.ofNat 101] /- raise -/,
  [Char.ofNat 114, Char.ofNat 101, Char.ofNat 116, Char.ofNat 117, Char.ofNat 114, Char.ofNat 110] /- return -/,
  [Char.ofNat 116, Char.ofNat 114, Char.ofNat 121] /- try -/,
  [Char.ofNat 119, Char.ofNat 104, Char.ofNat 105, Char.ofNat 108, Char.ofNat 101] /- while -/,
  [Char.ofNat 119, Char.ofNat 105, Char.ofNat 116, Char.ofNat 104] /- with -/,
  [Char.ofNat 121, Char.ofNat 105, Char.ofNat 101, Char.ofNat 108, Char.ofNat 100] /- yield -/
]
def singularNameSuffix : List Char := [Char.ofNat 73, Char.ofNat 116, Char.ofNat 101, Char.ofNat 109] /- 'Item' -/
def moduleDupSuffix : List Char := [Char.ofNat 77, Char.ofNat 111, Char.ofNat 100, Char.ofNat 101, Char.ofNat 108] /- 'Model' -/
def specialPrefix : List Char := [Char.ofNat 102, Char.ofNat 105, Char.ofNat 101, Char.ofNat 108, Char.ofNat 100] /- 'field' -/
def emptyFieldName : List Char := [Char.ofNat 95] /- '_' -/
/-- `reference.ID_PATTERN.pattern`: the regular expression that recognises an `$id`/anchor reference -/
def idPattern : List Char := [Char.ofNat 94, Char.ofNat 35, Char.ofNat 91, Char.ofNat 94, Char.ofNat 47, Char.ofNat 93, Char.ofNat 46, Char.ofNat 42] /- '^#[^/].*' -/
/-- `reference.ID_PATTERN.flags` (32 = `re.UNICODE`, what `re.compile` gives a `str` pattern without flags) -/
def idPatternFlags : Nat := 32
/-- every read of the name `ID_PATTERN` in src/: `file:scope:expression` -/
def idPatternUses : List (List Char) := [
  [Char.ofNat 114, Char.ofNat 101, Char.ofNat 102, Char.ofNat 101, Char.ofNat 114, Char.ofNat 101, Char.ofNat 110, Char.ofNat 99, Char.ofNat 101, Char.ofNat 46, Char.ofNat 112, Char.ofNat 121, Char.ofNat 58, Char.ofNat 77, Char.ofNat 111, Char.ofNat 100, Char.ofNat 101, Char.ofNat 108, Char.ofNat 82, Char.ofNat 101, Char.ofNat 115, Char.ofNat 111, Char.ofNat 108, Char.ofNat 118, Char.ofNat 101, Char.ofNat 114, Char.ofNat 46, Char.ofNat 114, Char.ofNat 101, Char.ofNat 115, Char.ofNat 111, Char.ofNat 108, Char.ofNat 118, Char.ofNat 101, Char.ofNat 95, Char.ofNat 114, Char.ofNat 101, Char.ofNat 102, Char.ofNat 58, Char.ofNat 73, Char.ofNat 68, Char.ofNat 95, Char.ofNat 80, Char.ofNat 65, Char.ofNat 84, Char.ofNat 84, Char.ofNat 69, Char.ofNat 82, Char.ofNat 78, Char.ofNat 46, Char.ofNat 109, Char.ofNat 97, Char.ofNat 116, Char.ofNat 99, Char.ofNat 104, Char.ofNat 40, Char.ofNat 106, Char.ofNat 111, Char.ofNat 105, Char.ofNat 110, Char.ofNat 101, Char.ofNat 100, Char.ofNat 95, Char.ofNat 112, Char.ofNat 97, Char.ofNat 116, Char.ofNat 104, Char.ofNat 41] /- reference.py:ModelResolver.resolve_ref:ID_PATTERN.match(joined_path) -/
]
/-- fields of `JsonSchemaObject` whose annotation mentions `JsonSchemaObject`: the keywords under which a subschema can stand -/
def schemaFields : List (List Char) := [
  [Char.ofNat 105, Char.ofNat 116, Char.ofNat 101, Char.ofNat 109, Char.ofNat 115] /- items -/,
  [Char.ofNat 97, Char.ofNat 100, Char.ofNat 100, Char.ofNat 105, Char.ofNat 116, Char.ofNat 105, Char.ofNat 111, Char.ofNat 110, Char.ofNat 97, Char.ofNat 108, Char.ofNat 80, Char.ofNat 114, Char.ofNat 111, Char.ofNat 112, Char.ofNat 101, Char.ofNat 114, Char.ofNat 116, Char.ofNat 105, Char.ofNat 101, Char.ofNat 115] /- additionalProperties -/,
  [Char.ofNat 112, Char.ofNat 97, Char.ofNat 116, Char.ofNat 116, Char.ofNat 101, Char.ofNat 114, Char.ofNat 110, Char.ofNat 80, Char.ofNat 114, Char.ofNat 111, Char.ofNat 112, Char.ofNat 101, Char.ofNat 114, Char.ofNat 116, Char.ofNat 105, Char.ofNat 101, Char.ofNat 115] /- patternProperties -/,
  [Char.ofNat 111, Char.ofNat 110, Char.ofNat 101, Char.ofNat 79, Char.ofNat 102] /- oneOf -/,
  [Char.ofNat 97, Char.ofNat 110, Char.ofNat 121, Char.ofNat 79, Char.ofNat 102] /- anyOf -/,
  [Char.ofNat 97, Char.ofNat 108, Char.ofNat 108, Char.ofNat 79, Char.ofNat 102] /- allOf -/,
  [Char.ofNat 112, Char.ofNat 114, Char.ofNat 111, Char.ofNat 112, Char.ofNat 101, Char.ofNat 114, Char.ofNat 116, Char.ofNat 105, Char.ofNat 101, Char.ofNat 115] /- properties -/
]
/-- attributes of the walked object whose values reach the recursive call of `JsonSchemaParser.parse_ref` -/
def parseRefDescends : List (List Char) := [
  [Char.ofNat 105, Char.ofNat 116, Char.ofNat 101, Char.ofNat 109, Char.ofNat 115] /- items -/,
  [Char.ofNat 97, Char.ofNat 110, Char.ofNat 121, Char.ofNat 79, Char.ofNat 102] /- anyOf -/,
  [Char.ofNat 97, Char.ofNat 108, Char.ofNat 108, Char.ofNat 79, Char.ofNat 102] /- allOf -/,
  [Char.ofNat 111, Char.ofNat 110, Char.ofNat 101, Char.ofNat 79, Char.ofNat 102] /- oneOf -/,
  [Char.ofNat 97, Char.ofNat 100, Char.ofNat 100, Char.ofNat 105, Char.ofNat 116, Char.ofNat 105, Char.ofNat 111, Char.ofNat 110, Char.ofNat 97, Char.ofNat 108, Char.ofNat 80, Char.ofNat 114, Char.ofNat 111, Char.ofNat 112, Char.ofNat 101, Char.ofNat 114, Char.ofNat 116, Char.ofNat 105, Char.ofNat 101, Char.ofNat 115] /- additionalProperties -/,
  [Char.ofNat 112, Char.ofNat 97, Char.ofNat 116, Char.ofNat 116, Char.ofNat 101, Char.ofNat 114, Char.ofNat 110, Char.ofNat 80, Char.ofNat 114, Char.ofNat 111, Char.ofNat 112, Char.ofNat 101, Char.ofNat 114, Char.ofNat 116, Char.ofNat 105, Char.ofNat 101, Char.ofNat 115] /- patternProperties -/,
  [Char.ofNat 112, Char.ofNat 114, Char.ofNat 111, Char.ofNat 112, Char.ofNat 101, Char.ofNat 114, Char.ofNat 116, Char.ofNat 105, Char.ofNat 101, Char.ofNat 115] /- properties -/
]
/-- attributes of the walked object whose values reach the recursive call of `JsonSchemaParser.parse_id` -/
def parseIdDescends : List (List Char) := [
  [Char.ofNat 105, Char.ofNat 116, Char.ofNat 101, Char.ofNat 109, Char.ofNat 115] /- items -/,
  [Char.ofNat 97, Char.ofNat 110, Char.ofNat 121, Char.ofNat 79, Char.ofNat 102] /- anyOf -/,
  [Char.ofNat 97, Char.ofNat 108, Char.ofNat 108, Char.ofNat 79, Char.ofNat 102] /- allOf -/,
  [Char.ofNat 97, Char.ofNat 100, Char.ofNat 100, Char.ofNat 105, Char.ofNat 116, Char.ofNat 105, Char.ofNat 111, Char.ofNat 110, Char.ofNat 97, Char.ofNat 108, Char.ofNat 80, Char.ofNat 114, Char.ofNat 111, Char.ofNat 112, Char.ofNat 101, Char.ofNat 114, Char.ofNat 116, Char.ofNat 105, Char.ofNat 101, Char.ofNat 115] /- additionalProperties -/,
  [Char.ofNat 112, Char.ofNat 97, Char.ofNat 116, Char.ofNat 116, Char.ofNat 101, Char.ofNat 114, Char.ofNat 110, Char.ofNat 80, Char.ofNat 114, Char.ofNat 111, Char.ofNat 112, Char.ofNat 101, Char.ofNat 114, Char.ofNat 116, Char.ofNat 105, Char.ofNat 101, Char.ofNat 115] /- patternProperties -/,
  [Char.ofNat 112, Char.ofNat 114, Char.ofNat 111, Char.ofNat 112, Char.ofNat 101, Char.ofNat 114, Char.ofNat 116, Char.ofNat 105, Char.ofNat 101, Char.ofNat 115] /- properties -/
]

end Dcg.Gen.ResolverTables
