-- GENERATED from /repo by /verif/vlib/translate on every run. Do not edit.
namespace Dcg.Gen.Formats

/-- SCHEMA_PATHS of the parser class -/
def jsonSchemaPaths : List String := ["#/definitions", "#/$defs"]

/-- the same, split into the keys walked from the document root (`schema_paths`) -/
def jsonSchemaPathsSplit : List (List String) :=
  [["definitions"], ["$defs"]]

/-- SCHEMA_PATHS of the parser class -/
def openapiSchemaPaths : List String := ["#/components/schemas"]

/-- the same, split into the keys walked from the document root (`schema_paths`) -/
def openapiSchemaPathsSplit : List (List String) :=
  [["components", "schemas"]]

/-- json_schema_data_formats: type ↦ format ↦ Types member -/
def dataFormats : List (String × List (String × String)) :=
  [("integer", [("int32", "int32"), ("int64", "int64"), ("default", "integer"), ("date-time", "date_time"), ("unix-time", "int64")]),
   ("number", [("float", "float"), ("double", "double"), ("decimal", "decimal"), ("date-time", "date_time"), ("time", "time"), ("default", "number")]),
   ("string", [("default", "string"), ("byte", "byte"), ("binary", "binary"), ("date", "date"), ("date-time", "date_time"), ("duration", "timedelta"), ("time", "time"), ("password", "password"), ("path", "path"), ("email", "email"), ("idn-email", "email"), ("uuid", "uuid"), ("uuid1", "uuid1"), ("uuid2", "uuid2"), ("uuid3", "uuid3"), ("uuid4", "uuid4"), ("uuid5", "uuid5"), ("uri", "uri"), ("uri-reference", "string"), ("hostname", "hostname"), ("ipv4", "ipv4"), ("ipv4-network", "ipv4_network"), ("ipv6", "ipv6"), ("ipv6-network", "ipv6_network"), ("decimal", "decimal"), ("integer", "integer")]),
   ("boolean", [("default", "boolean")]),
   ("object", [("default", "object")]),
   ("null", [("default", "null")]),
   ("array", [("default", "array")])]

/-- branches of validate_exclusive_maximum_and_exclusive_minimum in source order:
(keyword, literal compared by `is`, action) -/
def boundsSteps : List (String × String × String) :=
  [("exclusiveMaximum", "True", "move:maximum"), ("exclusiveMaximum", "False", "drop"), ("exclusiveMinimum", "True", "move:minimum"), ("exclusiveMinimum", "False", "drop")]

/-- the loop of JsonSchemaParser._parse_file over `schema_paths` (one entry per statement) and the later
loops over the list it fills (header, assignments to `path`, `self.parse_*` calls) -/
def containerLoop : List String :=
  ["for (schema_path, split_schema_path) in self.schema_paths:",
   "try: found = get_model_by_path(raw, split_schema_path)",
   "except KeyError: continue",
   "if found: definitions.extend(((schema_path, key, model) for key, model in found.items()))",
   "for (schema_path, key, model) in definitions: self.parse_id(obj, [*path_parts, schema_path, key])",
   "for (schema_path, key, model) in definitions: path = [*path_parts, schema_path, key]; self.parse_raw_obj(key, model, path)"]

end Dcg.Gen.Formats
