-- GENERATED from /repo by /verif/vlib/translate on every run. Do not edit.
namespace Dcg.Gen.Constraints

/-- `JsonSchemaObject.__constraint_fields__` (sorted) -/
def constraintFields : List String :=
  ["exclusiveMaximum", "exclusiveMinimum", "maxItems", "maxLength", "maximum", "minItems", "minLength", "minimum", "multipleOf", "pattern", "uniqueItems"]

/-- `kwargs_schema_to_model` of model/pydantic DataTypeManager -/
def kwargsV1 : List (String × String) :=
  [("exclusiveMinimum", "gt"),
   ("minimum", "ge"),
   ("exclusiveMaximum", "lt"),
   ("maximum", "le"),
   ("multipleOf", "multiple_of"),
   ("minItems", "min_items"),
   ("maxItems", "max_items"),
   ("minLength", "min_length"),
   ("maxLength", "max_length"),
   ("pattern", "regex")]

/-- `kwargs_schema_to_model` of model/pydantic_v2 DataTypeManager -/
def kwargsV2 : List (String × String) :=
  [("exclusiveMinimum", "gt"),
   ("minimum", "ge"),
   ("exclusiveMaximum", "lt"),
   ("maximum", "le"),
   ("multipleOf", "multiple_of"),
   ("minItems", "min_items"),
   ("maxItems", "max_items"),
   ("minLength", "min_length"),
   ("maxLength", "max_length"),
   ("pattern", "pattern")]

/-- filter set `numberKwargs` of model/pydantic/types.py (sorted) -/
def numberKwargs : List String :=
  ["exclusiveMaximum", "exclusiveMinimum", "maximum", "minimum", "multipleOf"]

/-- filter set `stringKwargs` of model/pydantic/types.py (sorted) -/
def stringKwargs : List String :=
  ["maxItems", "maxLength", "minItems", "minLength", "pattern"]

/-- filter set `bytesKwargs` of model/pydantic/types.py (sorted) -/
def bytesKwargs : List String :=
  ["maxLength", "minLength"]

/-- schema keyword ↦ attribute of the v1 `Constraints` class that holds its value after `parse_obj` -/
def aliasV1 : List (String × String) :=
  [("exclusiveMaximum", "lt"),
   ("exclusiveMinimum", "gt"),
   ("maxItems", "max_items"),
   ("maxLength", "max_length"),
   ("maximum", "le"),
   ("minItems", "min_items"),
   ("minLength", "min_length"),
   ("minimum", "ge"),
   ("multipleOf", "multiple_of"),
   ("pattern", "regex"),
   ("uniqueItems", "unique_items")]

/-- schema keyword ↦ attribute of the v2 `Constraints` class that holds its value after `parse_obj` -/
def aliasV2 : List (String × String) :=
  [("exclusiveMaximum", "lt"),
   ("exclusiveMinimum", "gt"),
   ("maxItems", "max_length"),
   ("maxLength", "max_length"),
   ("maximum", "le"),
   ("minItems", "min_length"),
   ("minLength", "min_length"),
   ("minimum", "ge"),
   ("multipleOf", "multiple_of"),
   ("pattern", "pattern"),
   ("uniqueItems", "unique_items")]

/-- schema keyword ↦ attribute of the msgspec `Constraints` class that holds its value after `parse_obj` -/
def aliasMsgspec : List (String × String) :=
  [("exclusiveMaximum", "lt"),
   ("exclusiveMinimum", "gt"),
   ("maxItems", "max_items"),
   ("maxLength", "max_length"),
   ("maximum", "le"),
   ("minItems", "min_items"),
   ("minLength", "min_length"),
   ("minimum", "ge"),
   ("multipleOf", "multiple_of"),
   ("pattern", "pattern"),
   ("uniqueItems", "unique_items")]

/-- attributes of the v1 `Constraints` class -/
def attrsV1 : List String :=
  ["unique_items", "gt", "ge", "lt", "le", "multiple_of", "min_items", "max_items", "min_length", "max_length", "regex"]

/-- attributes of the v2 `Constraints` class -/
def attrsV2 : List String :=
  ["unique_items", "gt", "ge", "lt", "le", "multiple_of", "min_items", "max_items", "min_length", "max_length", "regex", "pattern"]

/-- attributes of the msgspec `Constraints` class -/
def attrsMsgspec : List String :=
  ["unique_items", "gt", "ge", "lt", "le", "multiple_of", "min_items", "max_items", "min_length", "max_length", "regex", "pattern"]

/-- `additionalProperties` as written ↦ `extra` of the generated v1-style class (real parser run) -/
def extraV1 : List (String × String) :=
  [("absent", "none"),
   ("true", "allow"),
   ("false", "forbid"),
   ("schema", "none")]

/-- `additionalProperties` as written ↦ `extra` of the generated v2 class (real parser run) -/
def extraV2 : List (String × String) :=
  [("absent", "none"),
   ("true", "allow"),
   ("false", "forbid"),
   ("schema", "none")]

end Dcg.Gen.Constraints
