-- GENERATED from /repo by /verif/vlib/translate on every run. Do not edit.
namespace Dcg.Gen.LoopSites

/-- (file, function, kind = while | recursion, source of the test / guard, exits) of every `while` loop and every
parameterless self-recursion of the JSON-Schema / OpenAPI parsers -/
def loopSites : List (String × String × String × String × List String) := [
  ("parser/jsonschema.py", "_parse_file", "while", "reserved_refs", ["setEmpty", "setUnchanged"]),
  ("parser/jsonschema.py", "_resolve_unparsed_json_pointer", "recursion", "model_count != len(self.results)", ["countUnchanged"])
]

/-- (file, how) for every statement that changes `self.reserved_refs` -/
def reservedRefsMutations : List (String × String) := [
  ("jsonschema.py", "add"),
  ("jsonschema.py", "add"),
  ("jsonschema.py", "init")
]

end Dcg.Gen.LoopSites
