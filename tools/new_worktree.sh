#!/bin/bash
# usage: new_worktree.sh <branch>  — private worktree of /verif for a builder agent (/tmp/vw/<branch>, own lean/.lake)
cd "$(dirname "$0")/.."
b=${1:?branch}; W=/tmp/vw/$b
mkdir -p /tmp/vw
git worktree add -q -b "$b" "$W" HEAD || exit 2
cp -r lean/.lake "$W/lean/.lake"
mkdir -p "$W/lean/Dcg/Audit"; cp -r lean/Dcg/Audit/. "$W/lean/Dcg/Audit/" 2>/dev/null
echo "$W"
