#!/bin/bash
# usage: run_baseline.sh <worktree>   — runs the pinned baseline suite against <worktree>/src and compares with the 326 stable tests
W=${1:?worktree}
out=$(mktemp -d)
cd "$W" && PYTHONPATH="$W/src" /venv/bin/python -m pytest -ra -q -p no:cacheprovider --timeout=900 --continue-on-collection-errors --junitxml=$out/junit.xml >$out/log 2>&1
PYTHONPATH="$W/src" /venv/bin/python - "$out/junit.xml" <<'PY'
import json, sys, xml.etree.ElementTree as ET
import datamodel_code_generator, os
print("package under test:", os.path.dirname(datamodel_code_generator.__file__))
base = set(json.load(open('/root/.vp/BASELINE.json'))['stable_pass'])
passed = set()
for tc in ET.parse(sys.argv[1]).getroot().iter('testcase'):
    if not any(ch.tag in ('failure', 'error', 'skipped') for ch in tc):
        passed.add(f"{tc.get('classname')}::{tc.get('name')}")
missing = sorted(base - passed)
print(f"baseline: {len(base & passed)}/{len(base)} stable tests pass; missing={missing[:10]}")
sys.exit(1 if missing else 0)
PY
rc=$?; rm -rf "$out"; exit $rc
