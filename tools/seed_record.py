#!/usr/bin/env python3
"""usage: seed_record.py <matrix.md> — records the outcome of tools/seed_matrix*.sh in seeded/<id>/meta.json
("detection": which check, verdict, first evidence line, /verif and /repo commits) and writes seeded/MATRIX.md."""
import json
import subprocess
import sys
from pathlib import Path

V = Path(__file__).resolve().parent.parent


def git(repo: str, *a: str) -> str:
    return subprocess.run(["git", "-C", repo, *a], capture_output=True, text=True).stdout.strip()


def main() -> None:
    rows = []
    for line in Path(sys.argv[1]).read_text(errors="replace").splitlines():
        if not line.startswith("| C"):
            continue
        cells = [c.strip() for c in line.strip().strip("|").split("|")]
        sid, prop, verdict = cells[0], cells[1], cells[2]
        first = cells[3] if len(cells) > 3 else ""
        rows.append((sid, prop, verdict, first))
    verif, repo = git(str(V), "rev-parse", "--short", "HEAD"), git("/repo", "rev-parse", "--short", "HEAD")
    out = ["# Seeded changes versus the checks", "",
           f"Produced by `tools/seed_matrix_par.sh` + `tools/seed_record.py` at /verif {verif}, /repo {repo}: each change is applied to a scratch",
           "worktree of /repo and the quick check of the property it was written for is run against it (`DCG_REPO=<worktree> ./check Cxx`).", "",
           "| seeded change | what it changes (one line) | needs | verdict of `./check` | first evidence |", "|---|---|---|---|---|"]
    for sid, prop, verdict, first in sorted(rows):
        mp = V / "seeded" / sid / "meta.json"
        if not mp.is_file():
            continue
        m = json.loads(mp.read_text())
        m["detection"] = {"check": f"./check {prop} --tier quick", "verdict": verdict.replace("**", ""), "first_evidence": first[:300],
                          "verif_commit": verif, "repo_commit": repo}
        mp.write_text(json.dumps(m, indent=1, ensure_ascii=False))
        cut = lambda s, n: (s[:n] + "…") if len(s) > n else s  # noqa: E731
        out.append(f"| {sid} | {cut(m.get('summary', ''), 160).replace('|', '/')} | {cut(m.get('needs', ''), 120).replace('|', '/')} | {verdict} | {cut(first, 110)} |")
    caught = sum(1 for r in rows if r[2].startswith("VIOLATION"))
    out += ["", f"{caught} of {len(rows)} reported as VIOLATION ({sum(1 for r in rows if 'with replay' in r[2])} with a concrete failing input, "
            f"{sum(1 for r in rows if 'no-failing-input' in r[2])} as no-failing-input-found); missed: "
            + (", ".join(r[0] for r in rows if "missed" in r[2]) or "none") + "."]
    (V / "seeded" / "MATRIX.md").write_text("\n".join(out) + "\n")
    print(out[-1])


if __name__ == "__main__":
    main()
