#!/bin/bash
# usage: seed_intake.sh <Cxx> <suffix> <dir with patch.diff demo.py meta.json>
# copies a sub-agent's deliverables to seeded/<Cxx>-<suffix>/, confirms them (verify_seed.sh) and records the confirmation in meta.json
cd "$(dirname "$0")/.."
P=${1:?prop}; S=${2:?suffix}; SRC=${3:?dir}; id=$P-$S; D=seeded/$id
mkdir -p "$D"; cp "$SRC/patch.diff" "$SRC/demo.py" "$SRC/meta.json" "$D/" || exit 2
line=$("$(pwd)/tools/verify_seed.sh" "$(pwd)/$D" 2>&1 | tail -1); echo "$line"
/venv/bin/python - "$D/meta.json" "$id" "$P" "$line" "${ROUND:-round 5}" <<'PY'
import json, sys, re, subprocess
p, sid, prop, line, rnd = sys.argv[1:6]
m = json.load(open(p)); m["id"] = sid; m["property"] = prop
kv = dict(re.findall(r"(\w+)=(\S+)", line))
head = subprocess.run(["git", "-C", "/repo", "rev-parse", "--short", "HEAD"], capture_output=True, text=True).stdout.strip()
m["confirmed"] = {"by": f"tools/verify_seed.sh in a scratch worktree of /repo HEAD {head}",
                  "demo_on_unchanged_tree": f"exit {kv.get('CLEAN_DEMO')}", "apply": kv.get("APPLY"),
                  "baseline_with_change": f"{kv.get('BASELINE')} stable tests pass", "demo_with_change": f"exit {kv.get('MUT_DEMO')}"}
m["origin"] = f"{rnd}: written by an independent sub-agent that was given only the property text, a scratch checkout and one-line summaries of the earlier changes to avoid (nothing from /verif)"
json.dump(m, open(p, "w"), indent=1, ensure_ascii=False)
ok = kv.get("CLEAN_DEMO") == "0" and kv.get("APPLY", "").startswith("ok") and kv.get("BASELINE") == "326/326" and kv.get("MUT_DEMO") not in ("0", None)
print("CONFIRMED" if ok else "NOT-CONFIRMED")
PY
