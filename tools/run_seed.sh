#!/bin/bash
# usage: run_seed.sh <seed-id> <Cxx> [tier]  — runs ./check Cxx against a scratch copy of /repo with seeded/<seed-id>/patch.diff applied
id=${1:?seed}; prop=${2:?prop}; tier=${3:-quick}
V=$(cd "$(dirname "$0")/.." && pwd); W=/tmp/seedrun/$id-$$
mkdir -p /tmp/seedrun; git -C /repo worktree add -q "$W" HEAD || exit 2
git -C "$W" apply "$V/seeded/$id/patch.diff" 2>/dev/null || git -C "$W" apply --3way "$V/seeded/$id/patch.diff" >/dev/null 2>&1 || { echo "patch does not apply"; git -C /repo worktree remove --force "$W"; exit 2; }
cd "$V" && DCG_REPO="$W" ./check "$prop" --tier "$tier" 2>&1 | grep -v conda | grep -E "VIOLATION|^OK|BROKEN|DISAGREEMENT|ORACLE-FAILURE|INFRA" | cut -c1-400 | head -${SEED_LINES:-6}
rc=${PIPESTATUS[0]}
git -C /repo worktree remove --force "$W"; (cd "$V" && /venv/bin/python -m vlib.translate.all >/dev/null 2>&1)
exit $rc
