#!/bin/bash
# usage: verify_seed.sh <dir with patch.diff demo.py meta.json>  — confirms a seeded change in a scratch worktree of /repo
# prints: CLEAN_DEMO=<rc> APPLY=<ok|fail> BASELINE=<n/326> MUT_DEMO=<rc>
D=${1:?dir}; id=$(basename "$D"); W=/tmp/seedverify/$id
mkdir -p /tmp/seedverify; git -C /repo worktree remove --force "$W" >/dev/null 2>&1
git -C /repo worktree add -q "$W" HEAD || exit 2
cd "$W"
PYTHONPATH="$W/src" timeout 120 /venv/bin/python "$D/demo.py" >/tmp/seedverify/$id.clean.log 2>&1; c=$?
if git apply --check "$D/patch.diff" 2>/dev/null; then git apply "$D/patch.diff"; a=ok
elif git apply --3way "$D/patch.diff" >/dev/null 2>&1; then a=ok3way
else a=fail; fi
b=$("$(dirname "$(readlink -f "$0")")/run_baseline_at.sh" "$W" 2>/dev/null | grep -o '[0-9]*/326' | head -1)
PYTHONPATH="$W/src" timeout 120 /venv/bin/python "$D/demo.py" >/tmp/seedverify/$id.mut.log 2>&1; m=$?
cd /; git -C /repo worktree remove --force "$W"
echo "$id CLEAN_DEMO=$c APPLY=$a BASELINE=$b MUT_DEMO=$m"
