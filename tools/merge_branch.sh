#!/bin/bash
# usage: merge_branch.sh <branch> — merge an agent branch, resolving the generated index files by regeneration
cd "$(dirname "$0")/.."
git add -A; git commit -qm "work in progress before merging $1" 2>/dev/null; git merge --no-edit "$1" >/dev/null 2>&1
for f in THEOREMS.md MANIFEST.json known_findings.json lean/Dcg.lean lean/Dcg/Driver/All.lean evidence/C01.json evidence/C10.json lean/Dcg/Gen/EscTables.lean lean/Dcg/Gen/Templates.lean; do git checkout --ours -- "$f" 2>/dev/null; done
for f in $(git diff --name-only --diff-filter=U | grep "^evidence/"); do git checkout --theirs -- "$f"; done
python3 tools/regen_index.py; python3 tools/summarize.py > THEOREMS.md 2>/dev/null; for f in THEOREMS.md MANIFEST.json known_findings.json lean/Dcg.lean lean/Dcg/Driver/All.lean; do git add "$f"; done; git add evidence lean/Dcg/Gen 2>/dev/null
if git diff --name-only --diff-filter=U | grep -v "^evidence/" | grep -q .; then echo "UNRESOLVED:"; git diff --name-only --diff-filter=U; exit 1; fi
git add -A
if git diff --cached --name-only --diff-filter=U | grep -q .; then echo "UNRESOLVED:"; git diff --name-only --diff-filter=U; exit 1; fi
git commit -qm "Merge $1" && echo merged
