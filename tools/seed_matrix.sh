#!/bin/bash
# usage: seed_matrix.sh [ids…]  — runs every seeded change against the check of the property it was written for
# (sequentially: a DCG_REPO run regenerates the Gen tables of this checkout) and prints a markdown table.
cd "$(dirname "$0")/.."
ids=${@:-$(ls seeded | grep '^C')}
echo "| seeded change | property | verdict of ./check | first evidence |"
echo "|---|---|---|---|"
for id in $ids; do
  prop=${id%%-*}
  [ -f vlib/props/$(echo $prop | tr A-Z a-z).py ] || { echo "| $id | $prop | (no check yet) | |"; continue; }
  out=$(SEED_LINES=40 tools/run_seed.sh $id $prop 2>&1)
  v=$(echo "$out" | grep -E "^VIOLATION|^OK" | tail -1)
  case "$v" in
    *no-failing-input-found*) verdict="VIOLATION (no-failing-input-found)";;
    VIOLATION*) verdict="VIOLATION with replay";;
    OK*) verdict="**missed**";;
    *) verdict="? $(echo "$out" | tail -1 | cut -c1-60)";;
  esac
  first=$(echo "$out" | grep -E "BROKEN|DISAGREEMENT|ORACLE" | head -1 | cut -c1-140 | tr '|' '/')
  echo "| $id | $prop | $verdict | $first |"
done
