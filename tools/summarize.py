#!/usr/bin/env python3
"""Prints a markdown inventory of the property theorems (name + first sentence of the doc comment),
the known findings and the fix commits — used to keep DESIGN.md's appendix in step with the tree."""
import json, re, sys
from pathlib import Path
V = Path(__file__).resolve().parent.parent
out = []
for p in sorted((V/"lean"/"Dcg"/"Props").glob("C*.lean")):
    src = p.read_text()
    items = re.findall(r"(?:/--(.*?)-/\s*)?^theorem\s+([\w'.]+)", src, re.S | re.M)
    out.append(f"\n#### {p.stem} — {len(items)} obligations\n")
    for doc, name in items:
        doc = " ".join(doc.split())
        first = re.split(r"(?<=[.:;])\s", doc)[0][:180] if doc else ""
        out.append(f"* `{name}` — {first}")
print("\n".join(out))
