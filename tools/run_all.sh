#!/bin/bash
# usage: run_all.sh [tier] [seed]  — every claimed check on the unchanged tree, 4 at a time; prints one line per check
cd "$(dirname "$0")/.."
tier=${1:-quick}; seed=${2:-0}
/venv/bin/python -m vlib.translate.all >/dev/null 2>&1
ids=$(python3 -c "import json; print(' '.join(c['property_id'] for c in json.load(open('MANIFEST.json'))['checks']))")
for id in $ids; do echo $id; done | xargs -P ${PAR:-4} -I{} bash -c "s=\$(date +%s); VERIF_SEED=$seed ./check {} --tier $tier > /tmp/runall-{}.log 2>&1; rc=\$?; echo \"{} rc=\$rc \$(( \$(date +%s) - s ))s \$(grep -c KNOWN-FINDING /tmp/runall-{}.log) known  \$(grep -E 'VIOLATION|INFRA' /tmp/runall-{}.log | head -1 | cut -c1-160)\"" | sort
