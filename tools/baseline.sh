#!/bin/bash
# Runs the repository's pinned baseline suite with every verification guard OFF and
# compares the set of passing tests with /root/.vp/BASELINE.json (stable_pass).
unset DCG_VERIF
out=$(mktemp -d)
cd /repo && /venv/bin/python -m pytest -ra -q -p no:cacheprovider --timeout=900 --continue-on-collection-errors --junitxml=$out/junit.xml >$out/log 2>&1
/venv/bin/python - "$out/junit.xml" <<'PY'
import json, sys, xml.etree.ElementTree as ET
base = set(json.load(open('/root/.vp/BASELINE.json'))['stable_pass'])
passed = set()
for tc in ET.parse(sys.argv[1]).getroot().iter('testcase'):
    if not any(ch.tag in ('failure', 'error', 'skipped') for ch in tc):
        passed.add(f"{tc.get('classname')}::{tc.get('name')}")
missing = sorted(base - passed)
print(f"baseline: {len(base & passed)}/{len(base)} stable tests pass; missing={missing[:10]}")
sys.exit(1 if missing else 0)
PY
rc=$?
rm -rf "$out"
exit $rc
