#!/bin/bash
# usage: seed_matrix_par.sh <N> [ids…]  — like seed_matrix.sh but on N private copies of this checkout in parallel
# (each copy has its own lean/.lake, because a DCG_REPO run regenerates the Gen tables of the checkout it runs in).
# Prints the markdown table on stdout (sorted by id). Copies live under /tmp/smp and are removed at the end.
cd "$(dirname "$0")/.."
V=$(pwd); N=${1:-4}; shift
ids=${@:-$(ls seeded | grep '^C')}
rm -rf /tmp/smp; mkdir -p /tmp/smp
for k in $(seq 1 $N); do
  mkdir -p /tmp/smp/$k
  git ls-files -z | xargs -0 cp --parents -t /tmp/smp/$k 2>/dev/null
  cp -r lean/.lake /tmp/smp/$k/lean/.lake
done
i=0
for id in $ids; do k=$(( i % N + 1 )); echo $id >> /tmp/smp/list.$k; i=$((i+1)); done
for k in $(seq 1 $N); do
  [ -f /tmp/smp/list.$k ] || continue
  ( cd /tmp/smp/$k && tools/seed_matrix.sh $(cat /tmp/smp/list.$k) > /tmp/smp/out.$k 2>&1 ) &
done
wait
echo "| seeded change | property | verdict of ./check | first evidence |"
echo "|---|---|---|---|"
cat /tmp/smp/out.* | grep '^| C' | sort
rm -rf /tmp/smp
