#!/bin/bash
# Offline setup after a fresh restore: regenerate the tables from /repo, build the Lean package and the model driver.
set -e
cd "$(dirname "$0")"
/venv/bin/python -m vlib.translate.all
cd lean
lake build Dcg dcgdriver 2>&1 | grep -v '^  ' | tail -40
test -x .lake/build/bin/dcgdriver
echo "setup ok"
